#!/usr/bin/env python3
"""Runs every check (quick tier) against a property-preserving change: all must stay silent.

usage: tools/benign_eval.py <src-dir> <id> [check ids...]
  <src-dir> holds patch.diff and notes.md (as delivered by a sub-agent that was given all property
  texts and asked for a change a maintainer would accept and that keeps every property).
The patch is applied to a scratch copy of /repo under /tmp (removed afterwards); the files and the
per-check results are kept in /verif/benign/<id>/.
"""
import json, os, re, shutil, subprocess, sys, tempfile

VERIF = os.path.dirname(os.path.dirname(os.path.abspath(__file__)))
ENV = dict(os.environ)
GO = "/root/go/pkg/mod/golang.org/toolchain@v0.0.1-go1.24.4.linux-amd64/bin"
ENV.update({"PATH": GO + ":" + ENV["PATH"], "GOFLAGS": "-mod=mod", "GOPROXY": "off", "GOSUMDB": "off", "GOTOOLCHAIN": "local"})
ALL = ["C%02d" % i for i in range(1, 21)]

def sh(cmd, cwd):
    p = subprocess.run(cmd, shell=True, cwd=cwd, env=ENV, stdout=subprocess.PIPE, stderr=subprocess.STDOUT)
    return p.returncode, p.stdout.decode(errors="replace")

def main():
    src, bid = sys.argv[1], sys.argv[2]
    checks = sys.argv[3:] or ALL
    scr = tempfile.mkdtemp(prefix="benign.", dir="/tmp")
    dst = os.path.join(VERIF, "benign", bid)
    os.makedirs(dst, exist_ok=True)
    for f in ("patch.diff", "notes.md"):
        if os.path.exists(os.path.join(src, f)) and os.path.abspath(src) != os.path.abspath(dst):
            shutil.copy(os.path.join(src, f), os.path.join(dst, f))
    try:
        repo = os.path.join(scr, "repo")
        sh("rsync -a --exclude .git /repo/ %s/" % repo, "/")
        rc, out = sh("patch -p1 -s < %s" % os.path.join(dst, "patch.diff"), repo)
        if rc != 0:
            print(out); print("patch does not apply"); return 2
        rc, out = sh("go build ./...", repo)
        if rc != 0:
            print(out); print("does not build"); return 2
        env = dict(ENV); env.update({"VERIF_REPO": repo, "VERIF_EVIDENCE_DIR": os.path.join(scr, "ev"), "VERIF_REPLAY_DIR": os.path.join(scr, "rp")})
        meta = {}
        if os.path.exists(os.path.join(dst, "meta.json")):
            meta = json.load(open(os.path.join(dst, "meta.json")))
        results = meta.get("checks_quick", {})
        for cid in checks:
            p = subprocess.run([os.path.join(VERIF, "check"), cid, "quick"], cwd=VERIF, env=env, stdout=subprocess.PIPE, stderr=subprocess.STDOUT)
            out = p.stdout.decode(errors="replace")
            first = ""
            mm = re.search(r"^VIOLATION.*\n(.*)", out, re.M)
            if mm: first = mm.group(1).strip()[:600]
            results[cid] = {"exit": p.returncode, "first": first}
            print("  %s check %s -> exit %d  %s" % (bid, cid, p.returncode, first[:300]), flush=True)
            if p.returncode not in (0, 1):
                print(out[-600:])
        meta.update({"id": bid, "checks_quick": results, "alarms": sorted(c for c, r in results.items() if r["exit"] != 0)})
        json.dump(meta, open(os.path.join(dst, "meta.json"), "w"), indent=1)
        print("%s: alarms %s" % (bid, meta["alarms"]))
        return 0
    finally:
        shutil.rmtree(scr, ignore_errors=True)
        tag = subprocess.run("printf '%s' '" + os.path.join(scr, "repo") + "' | cksum | cut -d' ' -f1", shell=True, stdout=subprocess.PIPE).stdout.decode().strip()
        for f in os.listdir(os.path.join(VERIF, "bin")):
            if ("." + tag) in f:
                try: os.remove(os.path.join(VERIF, "bin", f))
                except OSError: pass

if __name__ == "__main__":
    sys.exit(main())
