#!/usr/bin/env python3
"""Rewrites DESIGN.md section 12 (between the markers) from seeded/*/meta.json and selftest/MAP.txt."""
import json, os, glob, re
HERE = os.path.dirname(os.path.dirname(os.path.abspath(__file__)))
rows = []
for d in sorted(glob.glob(os.path.join(HERE, "seeded", "*"))):
    mp = os.path.join(d, "meta.json")
    if not os.path.exists(mp): continue
    m = json.load(open(mp))
    notes = ""
    np = os.path.join(d, "notes.md")
    if os.path.exists(np):
        txt = open(np).read()
        # first non-heading paragraph line
        for line in txt.splitlines():
            l = line.strip()
            if l and not l.startswith("#") and len(l) > 30:
                notes = l[:160]; break
    files = ""
    pp = os.path.join(d, "patch.diff")
    if os.path.exists(pp):
        files = ", ".join(sorted(set(re.findall(r"^\+\+\+ b/(\S+)", open(pp).read(), re.M))))
    caught = ", ".join(m.get("caught_by", [])) or "**none**"
    if m.get("status", "").startswith("obsolete") or m.get("status", "").startswith("outside"):
        caught += " (" + m["status"].split(":")[0] + ", see meta.json)"
    rows.append("| %s | %s | %s | %s | %s |" % (m["seed_id"], m["property"], files, caught, m.get("suite_with_change", "n/a")[:40]))
table = ["| seeded change | property attacked | files changed | caught by (quick tier, exit 1) | repository suite with the change |", "|---|---|---|---|---|"] + rows
st = []
for line in open(os.path.join(HERE, "selftest", "MAP.txt")):
    if line.startswith("#") or not line.strip(): continue
    p, *checks = line.split()
    st.append("| %s | %s |" % (p, ", ".join(checks)))
stt = ["| self-test patch (selftest/) | must be caught by |", "|---|---|"] + st
body = "\n".join(table) + "\n\n" + "\n".join(stt) + "\n"
p = os.path.join(HERE, "DESIGN.md")
s = open(p).read()
a, b = "<!-- SEED-TABLE-BEGIN -->", "<!-- SEED-TABLE-END -->"
if a in s:
    s = s[:s.index(a) + len(a)] + "\n" + body + s[s.index(b):]
    open(p, "w").write(s)
    print("updated: %d seeded, %d self-test" % (len(rows), len(st)))
else:
    print("markers missing")
