package main

// Fact universe of the harness: the Go types handed to the engine, the tool object
// whose methods are the harness-owned observation and fault-injection points, and
// generic deep copy / compare / hash over the whole data-context state.

import (
	"context"
	"crypto/sha256"
	"encoding/hex"
	"encoding/json"
	"fmt"
	"math"
	"reflect"
	"runtime"
	"sort"
	"strings"
	"sync"
	"sync/atomic"
	"time"
)

// Inner is reached through pointers, values, slices and maps of Fact.
type Inner struct {
	X   int64
	Y   float64
	S   string
	B   bool
	N   int32
	U   uint16
	Sub *Leaf
}

// Leaf sits two steps below slice / map elements (F.PArr[0].Sub.V).
type Leaf struct {
	V int64
	W float64
}

// Fact covers every addressing form and kind the properties quantify over.
type Fact struct {
	A, AB, A1, B, C, E, P int64
	I                     int
	I8                    int8
	I16                   int16
	I32                   int32
	U                     uint
	U8                    uint8
	U16                   uint16
	U32                   uint32
	U64                   uint64
	X, Y                  float64
	F32                   float32
	S1, S2                string
	T, Fl                 bool
	Tm, Tm2               time.Time
	In                    *Inner
	Val                   Inner
	PN                    *int64
	Any                   interface{}
	AnyIn                 interface{}
	Arr                   []int64
	FArr                  []float64
	SArr                  []string
	PArr                  []*Inner
	I8Arr                 []int8
	M                     map[string]int64
	MS                    map[string]string
	MP                    map[string]*Inner
	MI                    map[int64]int64
	MF                    map[string]float64
	MInt                  map[string]int
	Idx                   int64
	Key                   string
	MKey                  string
	PB                    *bool
	AnyB                  interface{}
	MAny                  map[string]interface{}
}

// State is the content of a data context: key -> *Fact | *Tool | JSON tree | scalar.
type State map[string]interface{}

// CallRec is one logged call of a Tool method.
type CallRec struct {
	Seq  int64         `json:"seq"`
	Name string        `json:"name"`
	Args []interface{} `json:"args"`
}

// Hooks is the harness side of a Tool (never visible to GRL, never copied into shadows).
type Hooks struct {
	mu     sync.Mutex
	Calls  []CallRec
	stamp  *int64 // global event counter shared with the recorder
	OnCall func(name string, n int) // called with the running number (1-based) of harness-method calls
	// fault plan: the FaultAt-th call (1-based, counted over all calls) fails in flavour Flavour
	FaultAt  int
	Flavour  string
	Fired    bool
	ncalls   int
	Cancel   context.CancelFunc
	CancelAt int // cancel() when the CancelAt-th call starts (0 = never)
	YieldP   int // percent chance substitute: every YieldP-th call yields (0 = never)
	Rec      *Recorder
}

// Tool is registered as "T". Exported fields are ordinary fact data; methods are the
// pure / counted / marker / fault / control methods of DESIGN §2.1.
type Tool struct {
	Seq  int64
	St   int64 // state read by Peek, changed by Poke (only together with Forget/Changed)
	Nil  *Inner
	h    *Hooks
	shad bool
}

type faultPanic struct{ msg string }

func (t *Tool) enter(name string, args ...interface{}) (fault string) {
	if t.shad || t.h == nil {
		return ""
	}
	h := t.h
	h.mu.Lock()
	h.ncalls++
	n := h.ncalls
	var seq int64
	if h.stamp != nil {
		seq = atomic.AddInt64(h.stamp, 1)
	}
	h.Calls = append(h.Calls, CallRec{Seq: seq, Name: name, Args: args})
	if h.FaultAt > 0 && n == h.FaultAt {
		h.Fired = true
		fault = h.Flavour
		if fault == "site" {
			// the flavour that makes this method's call site fail downstream
			switch name {
			case "Chk":
				fault = "zero"
			case "Ptr":
				fault = "nilptr"
			case "Idx0":
				fault = "range"
			case "Kind":
				fault = "kind"
			default:
				fault = "panic"
			}
		}
	}
	cancelNow := h.CancelAt > 0 && n == h.CancelAt
	yield := h.YieldP > 0 && n%h.YieldP == 0
	rec := h.Rec
	h.mu.Unlock()
	if rec != nil {
		rec.methodEvent(name, n, seq, fault)
	}
	if h.OnCall != nil {
		h.OnCall(name, n)
	}
	if cancelNow && h.Cancel != nil {
		h.Cancel()
		if rec != nil {
			rec.cancelEvent()
		}
	}
	if yield {
		runtime.Gosched()
	}
	if fault == "panic" {
		panic(faultPanic{"injected panic in " + name})
	}
	return fault
}

// ---- pure methods: functions of their explicit arguments only ----

func (t *Tool) Add3(a, b, c int64) int64 { t.enter("Add3", a, b, c); return a + 2*b + 3*c }
func (t *Tool) Mix(a int64, x float64, s string, b bool) int64 {
	t.enter("Mix", a, x, s, b)
	r := a*7 + int64(len(s))
	if b {
		r += 1000
	}
	if x > 0 {
		r += 3
	}
	return r
}
func (t *Tool) Half(x float64) float64 { t.enter("Half", x); return x / 2 }
func (t *Tool) Cat(ss ...string) string {
	t.enter("Cat", toIfaces(ss)...)
	r := strings.Join(ss, "|")
	if len(r) > 200 {
		r = r[:200]
	}
	return r
}
func (t *Tool) Sum(base int64, xs ...int64) int64 {
	args := []interface{}{base}
	for _, x := range xs {
		args = append(args, x)
	}
	t.enter("Sum", args...)
	for i, x := range xs {
		base += int64(i+1) * x
	}
	return base
}
func (t *Tool) Clip(s string) string {
	t.enter("Clip", s)
	if len(s) > 24 {
		return s[:24]
	}
	return s
}
func (t *Tool) IsPos(a int64) bool     { t.enter("IsPos", a); return a > 0 }
func (t *Tool) Neg(b bool) bool        { t.enter("Neg", b); return !b }
func (t *Tool) Up(s string) string     { t.enter("Up", s); return strings.ToUpper(s) + "!" }
func (t *Tool) I8of(a int64) int8      { t.enter("I8of", a); return int8(a % 100) }
func (t *Tool) U16of(a int64) uint16   { t.enter("U16of", a); return uint16(a&0x7fff) + 1 }
func (t *Tool) F32of(a int64) float32  { t.enter("F32of", a); return float32(a) / 4 }
func (t *Tool) Intof(a int64) int      { t.enter("Intof", a); return int(a) * 2 }

// ---- counted pure methods (C13) ----

func (t *Tool) Cnt(a int64) int64     { t.enter("Cnt", a); return a*a + 1 }
func (t *Tool) Cnt2(a, b int64) int64 { t.enter("Cnt2", a, b); return a - b }
func (t *Tool) Heavy(s string) bool   { t.enter("Heavy", s); return len(s)%2 == 0 }

// Tag / Tag2 / TagS are counted pure methods whose first argument identifies the call text.
func (t *Tool) Tag(id, a int64) int64     { t.enter("Tag", id, a); return a*3 + id }
func (t *Tool) Tag2(id, a, b int64) int64 { t.enter("Tag2", id, a, b); return a - 2*b + id }
func (t *Tool) TagS(id int64, s string) bool {
	t.enter("TagS", id, s)
	return (int64(len(s))+id)%2 == 0
}

// ---- state reader / mutator (only used with Forget/Changed) ----

func (t *Tool) Peek() int64 { t.enter("Peek"); return t.St }

// PeekK is Peek with a key argument (the key only makes the call text contain a string).
func (t *Tool) PeekK(key string) int64 { t.enter("PeekK", key); return t.St + int64(len(key)%2) }
func (t *Tool) Poke(v int64) {
	t.enter("Poke", v)
	t.St = v
}

// ---- marker ----

func (t *Tool) Mark(seq int64) { t.enter("Mark", seq) }

// ---- fault methods: healthy unless the fault plan selects this call; the first argument
// identifies the call text ----

// Chk returns a (used as a % divisor), or 0 when the plan says so.
func (t *Tool) Chk(id, a int64) int64 {
	if t.enter("Chk", id, a) == "zero" {
		return 0
	}
	return a
}

// Ptr returns a valid *Inner, or nil when the plan says so (the caller then reads a field of it).
func (t *Tool) Ptr(id, a int64) *Inner {
	if t.enter("Ptr", id, a) == "nilptr" {
		return nil
	}
	return &Inner{X: a, N: int32(a%7) + 1, S: "p"}
}

// Idx0 returns a valid index (0) or one that is out of range.
func (t *Tool) Idx0(id, a int64) int64 {
	if t.enter("Idx0", id, a) == "range" {
		return 1 << 40
	}
	return 0
}

// Kind returns an int64, or a string when the plan says so (used as a multiplication operand).
func (t *Tool) Kind(id, a int64) interface{} {
	if t.enter("Kind", id, a) == "kind" {
		return "not-a-number"
	}
	return a
}

// Note takes anything, also a pointer to a fact or to a part of one, and does nothing: handing a
// fact to a method is not an announcement that it changed.
func (t *Tool) Note(v interface{}) { t.enter("Note") }

// NArgs counts what it is handed: a single slice argument is ONE argument.
func (t *Tool) NArgs(args ...interface{}) int64 {
	t.enter("NArgs", len(args))
	return int64(len(args))
}

// KindOf reports the dynamic kind and the value it was given (constants that look alike in
// print - "7" and 7, "true" and true - must arrive as what they are).
func (t *Tool) KindOf(v interface{}) string {
	t.enter("KindOf", v)
	return fmt.Sprintf("%T:%v", v, v)
}

// Two always returns two values: calling it is an error by documentation.
func (t *Tool) Two(id, a int64) (int64, int64) { t.enter("Two", id, a); return a, a }

// Boom always panics.
func (t *Tool) Boom(id, a int64) int64 { t.enter("Boom", id, a); panic("boom") }

// ---- control methods ----

func (t *Tool) Yield(a int64) int64 { t.enter("Yield", a); runtime.Gosched(); return a }

func toIfaces(ss []string) []interface{} {
	r := make([]interface{}, len(ss))
	for i, s := range ss {
		r[i] = s
	}
	return r
}

// ---------------------------------------------------------------------------
// deep copy

// CopyState returns a deep copy of a state. Tool hooks are not copied: the copy is a shadow
// (its methods do not log, count, fault or cancel).
func CopyState(s State) State {
	r := make(State, len(s))
	for k, v := range s {
		r[k] = copyIface(v)
	}
	return r
}

func copyIface(v interface{}) interface{} {
	if v == nil {
		return nil
	}
	if t, ok := v.(*Tool); ok {
		return &Tool{Seq: t.Seq, St: t.St, shad: true}
	}
	return deepCopyValue(reflect.ValueOf(v)).Interface()
}

var timeType = reflect.TypeOf(time.Time{})

func deepCopyValue(v reflect.Value) reflect.Value {
	switch v.Kind() {
	case reflect.Ptr:
		if v.IsNil() {
			return reflect.Zero(v.Type())
		}
		n := reflect.New(v.Type().Elem())
		n.Elem().Set(deepCopyValue(v.Elem()))
		return n
	case reflect.Interface:
		if v.IsNil() {
			return reflect.Zero(v.Type())
		}
		n := reflect.New(v.Type()).Elem()
		n.Set(deepCopyValue(v.Elem()))
		return n
	case reflect.Struct:
		if v.Type() == timeType {
			return v
		}
		n := reflect.New(v.Type()).Elem()
		for i := 0; i < v.NumField(); i++ {
			if v.Type().Field(i).PkgPath != "" {
				continue
			}
			n.Field(i).Set(deepCopyValue(v.Field(i)))
		}
		return n
	case reflect.Slice:
		if v.IsNil() {
			return reflect.Zero(v.Type())
		}
		n := reflect.MakeSlice(v.Type(), v.Len(), v.Len())
		for i := 0; i < v.Len(); i++ {
			n.Index(i).Set(deepCopyValue(v.Index(i)))
		}
		return n
	case reflect.Map:
		if v.IsNil() {
			return reflect.Zero(v.Type())
		}
		n := reflect.MakeMapWithSize(v.Type(), v.Len())
		it := v.MapRange()
		for it.Next() {
			n.SetMapIndex(it.Key(), deepCopyValue(it.Value()))
		}
		return n
	default:
		return v
	}
}

// ---------------------------------------------------------------------------
// canonical rendering (used for comparison, hashing and replay files)

// Canon renders a state deterministically with kinds, so that equal renderings mean equal
// values of equal dynamic kinds everywhere in the fact universe.
func Canon(s State) string {
	var b strings.Builder
	keys := make([]string, 0, len(s))
	for k := range s {
		keys = append(keys, k)
	}
	sort.Strings(keys)
	for _, k := range keys {
		if k == "DEFUNC" {
			continue
		}
		b.WriteString(k)
		b.WriteString("=")
		if s[k] == nil {
			b.WriteString("nil")
		} else {
			canonValue(&b, reflect.ValueOf(s[k]))
		}
		b.WriteString("\n")
	}
	return b.String()
}

func canonValue(b *strings.Builder, v reflect.Value) {
	if !v.IsValid() {
		b.WriteString("invalid")
		return
	}
	switch v.Kind() {
	case reflect.Ptr:
		if v.IsNil() {
			b.WriteString("nilptr")
			return
		}
		b.WriteString("&")
		canonValue(b, v.Elem())
	case reflect.Interface:
		if v.IsNil() {
			b.WriteString("niliface")
			return
		}
		b.WriteString("i:")
		canonValue(b, v.Elem())
	case reflect.Struct:
		if v.Type() == timeType {
			t := v.Interface().(time.Time)
			fmt.Fprintf(b, "time(%d,%s)", t.UnixNano(), t.Location().String())
			return
		}
		b.WriteString(v.Type().Name())
		b.WriteString("{")
		for i := 0; i < v.NumField(); i++ {
			f := v.Type().Field(i)
			if f.PkgPath != "" {
				continue
			}
			b.WriteString(f.Name)
			b.WriteString(":")
			canonValue(b, v.Field(i))
			b.WriteString(" ")
		}
		b.WriteString("}")
	case reflect.Slice:
		if v.IsNil() {
			b.WriteString("nilslice")
			return
		}
		b.WriteString("[")
		for i := 0; i < v.Len(); i++ {
			canonValue(b, v.Index(i))
			b.WriteString(",")
		}
		b.WriteString("]")
	case reflect.Map:
		if v.IsNil() {
			b.WriteString("nilmap")
			return
		}
		type kv struct {
			k string
			v reflect.Value
		}
		var kvs []kv
		it := v.MapRange()
		for it.Next() {
			var kb strings.Builder
			canonValue(&kb, it.Key())
			kvs = append(kvs, kv{kb.String(), it.Value()})
		}
		sort.Slice(kvs, func(i, j int) bool { return kvs[i].k < kvs[j].k })
		b.WriteString("map{")
		for _, e := range kvs {
			b.WriteString(e.k)
			b.WriteString("=>")
			canonValue(b, e.v)
			b.WriteString(",")
		}
		b.WriteString("}")
	case reflect.Float32, reflect.Float64:
		f := v.Float()
		if math.IsNaN(f) {
			fmt.Fprintf(b, "%s(NaN)", v.Kind())
		} else {
			fmt.Fprintf(b, "%s(%s)", v.Kind(), fmtFloat(f))
		}
	case reflect.String:
		fmt.Fprintf(b, "%q", v.String())
	case reflect.Bool:
		fmt.Fprintf(b, "%v", v.Bool())
	case reflect.Int, reflect.Int8, reflect.Int16, reflect.Int32, reflect.Int64:
		fmt.Fprintf(b, "%s(%d)", v.Kind(), v.Int())
	case reflect.Uint, reflect.Uint8, reflect.Uint16, reflect.Uint32, reflect.Uint64:
		fmt.Fprintf(b, "%s(%d)", v.Kind(), v.Uint())
	default:
		fmt.Fprintf(b, "?%s", v.Kind())
	}
}

func fmtFloat(f float64) string {
	if f == 0 {
		f = 0 // the sign of zero is not part of any documented value: -0 and +0 render alike
	}
	return fmt.Sprintf("%x", math.Float64bits(f)) + "/" + fmt.Sprintf("%g", f)
}

// DiffCanon reports the first differing line of two canonical renderings (split further on spaces).
func DiffCanon(a, b string) string {
	if a == b {
		return ""
	}
	la, lb := strings.Split(a, "\n"), strings.Split(b, "\n")
	for i := 0; i < len(la) && i < len(lb); i++ {
		if la[i] != lb[i] {
			fa, fb := strings.Fields(la[i]), strings.Fields(lb[i])
			for j := 0; j < len(fa) && j < len(fb); j++ {
				if fa[j] != fb[j] {
					lo := j - 1
					if lo < 0 {
						lo = 0
					}
					return fmt.Sprintf("at %q: %s  !=  %s", strings.SplitN(la[i], "=", 2)[0], strings.Join(fa[lo:j+1], " "), strings.Join(fb[lo:j+1], " "))
				}
			}
			return fmt.Sprintf("line %d differs in length: %d vs %d fields", i, len(fa), len(fb))
		}
	}
	return "different number of keys"
}

func hashStr(s string) string {
	h := sha256.Sum256([]byte(s))
	return hex.EncodeToString(h[:8])
}

// jsonTree normalises a Go value produced by encoding/json or by engine assignments.
func jsonOf(v interface{}) string {
	b, err := json.Marshal(v)
	if err != nil {
		return "!" + err.Error()
	}
	return string(b)
}
