package main

// C12: binary store/load yields an equivalent knowledge base or an error.
// (a) round trip (twice) with canonical-form and behavioural comparison, (b) every truncation
// offset must fail to load, through plain and hostile readers, (c) a writer failing at every
// call index must make the store fail, (d) overwrite=false leaves an existing entry untouched.

import (
	"bytes"
	"errors"
	"fmt"
	"io"
	"os"
	"os/exec"
	"path/filepath"
	"sort"
	"strings"
	"testing/iotest"

	"github.com/hyperjumptech/grule-rule-engine/ast"
)

// recWriter records the size of every Write call (field boundaries of the format).
type recWriter struct {
	buf   bytes.Buffer
	sizes []int
}

func (w *recWriter) Write(p []byte) (int, error) {
	w.sizes = append(w.sizes, len(p))
	return w.buf.Write(p)
}

// failWriter fails its k-th Write call (1-based) in a chosen flavour.
type failWriter struct {
	buf     bytes.Buffer
	k, n    int
	flavour string // error | partial (writes half, then reports the error)
}

var errInjected = errors.New("injected write failure")

func (w *failWriter) Write(p []byte) (int, error) {
	w.n++
	if w.n == w.k {
		if w.flavour == "partial" && len(p) > 1 {
			w.buf.Write(p[:len(p)/2])
			return len(p) / 2, errInjected
		}
		return 0, errInjected
	}
	return w.buf.Write(p)
}

const zooRule = `rule Zoo "every node type" salience -99999 {
 when false && (F.In == nil || !(F.A >= -0x10 && !F.T) || "s'q".Len() > 07 || F.Arr[F.Idx + 1] % 3 == 1.5e3 || F.MP["a"].S.ToUpper().HasPrefix('X') || T.Sum(1, 2, F.A) != 0 || !T.IsPos(F.B) || F.Tm < MakeTime(2020, 1, 2, 3, 4, 5))
 then F.A = 1; F.A += 2; F.A -= 3; F.X *= 4.5; F.X /= 2; F.M["k1"] = F.Arr[0]; F.In.S = 'x' + "y" + 1 + true; Log("zoo"); Retract("Zoo");
}
`

func loadVia(reader string, data []byte) (lib *ast.KnowledgeLibrary, err error, panicked interface{}) {
	defer func() {
		if p := recover(); p != nil {
			panicked = p
		}
	}()
	var rd io.Reader = bytes.NewReader(data)
	switch reader {
	case "onebyte":
		rd = iotest.OneByteReader(rd)
	case "half":
		rd = iotest.HalfReader(rd)
	case "dataerr":
		rd = iotest.DataErrReader(rd)
	}
	lib = ast.NewKnowledgeLibrary()
	_, err = lib.LoadKnowledgeBaseFromReader(rd, true)
	return
}

var c12DenseOpts = TraceOpts{MinRules: 1, MaxRules: 3, MinPool: 2, MaxPool: 4, Control: true, Announce: true, AnnounceDense: true, Calls: true, Depth: 2}

// c12Behaviour stores, loads (twice) and runs one small announce-dense program; false = violation.
func c12Behaviour(c *Ctx, idx, bi int, cr *CaseResult) bool {
	r := c.Rng(idx, 1000+bi)
	prog := GenTraceProgram(r, c12DenseOpts)
	text := traceStyle(c.Rng(idx, 2000+bi)).PrintProgram(prog)
	lib, err := BuildLib(text)
	if err != nil {
		return true
	}
	cur := lib
	for round := 1; round <= 2; round++ {
		var b bytes.Buffer
		if err := cur.StoreKnowledgeBaseToWriter(&b, kbName, kbVer); err != nil {
			cr.violate(fmt.Sprintf("store (generation %d) of a successfully built knowledge base failed: %v", round, err), map[string]interface{}{"grl": text})
			return false
		}
		l2, err, pn := loadVia("plain", b.Bytes())
		cr.Evals++
		if err != nil || pn != nil {
			cr.violate(fmt.Sprintf("generation %d: a stored stream does not load: err=%v panic=%v", round, err, pn), map[string]interface{}{"grl": text})
			return false
		}
		for si := 0; si < 2; si++ {
			inst, err := l2.NewKnowledgeBaseInstance(kbName, kbVer)
			if err != nil {
				cr.violate(fmt.Sprintf("generation %d: no instance of the loaded knowledge base: %v", round, err), map[string]interface{}{"grl": text})
				return false
			}
			init := GenState(c.Rng(idx, 3000+bi*4+si))
			cfg := RunCfg{MaxCycle: uint64(6 + si*12)}
			res := Run(inst, prog, CopyStateLive(init), cfg)
			cr.Evals++
			a := Analyze(prog, res, cfg, nil)
			var vs []Violation
			if res.Panic != nil {
				vs = append(vs, Violation{"C12", 0, "", fmt.Sprintf("panic: %v", res.Panic)})
			}
			vs = append(vs, MonFiresOnlyWhenTrue(a)...)
			vs = append(vs, MonCandidatesComplete(a)...)
			vs = append(vs, MonMaxSalience(a)...)
			vs = append(vs, MonReplayEqual(a)...)
			vs = append(vs, MonControl(a)...)
			if len(vs) > 0 {
				cr.violate(fmt.Sprintf("generation %d: an instance of the loaded knowledge base does not behave like the stored rules: %s", round, joinViol(vs[:min(2, len(vs))])), caseDetail(text, "grb", init, res, vs))
				return false
			}
			cr.inc("announce_dense_runs")
			if len(a.Firings()) > 1 {
				cr.NonTrivial = append(cr.NonTrivial, hashStr(fmt.Sprintf("ad|%s|%d|%d", text, round, si)))
			}
		}
		cur = l2
	}
	// a rule is removed from the library AFTER it has been stored once: the next store must
	// write the knowledge base as it is now
	if len(prog.Rules) > 1 {
		vr := c.Rng(idx, 4000+bi)
		victim := prog.Rules[vr.Intn(len(prog.Rules))].Name
		if vr.Intn(2) == 0 {
			lib.RemoveRuleEntry(victim, kbName, kbVer)
		} else {
			lib.GetKnowledgeBase(kbName, kbVer).RemoveRuleEntry(victim)
		}
		removed := map[string]bool{victim: true}
		var b bytes.Buffer
		if err := lib.StoreKnowledgeBaseToWriter(&b, kbName, kbVer); err != nil {
			cr.violate(fmt.Sprintf("store after removing rule %s failed: %v", victim, err), map[string]interface{}{"grl": text})
			return false
		}
		l3, err, pn := loadVia("plain", b.Bytes())
		cr.Evals++
		if err != nil || pn != nil {
			cr.violate(fmt.Sprintf("the stream stored after removing rule %s does not load: err=%v panic=%v", victim, err, pn), map[string]interface{}{"grl": text})
			return false
		}
		inst, err := l3.NewKnowledgeBaseInstance(kbName, kbVer)
		if err != nil {
			cr.violate(fmt.Sprintf("no instance of the knowledge base stored after removing rule %s and loaded again: %v", victim, err), map[string]interface{}{"grl": text})
			return false
		}
		init := GenState(c.Rng(idx, 5000+bi))
		cfg := RunCfg{MaxCycle: 12}
		res := Run(inst, prog, CopyStateLive(init), cfg)
		cr.Evals++
		a := Analyze(prog, res, cfg, removed)
		var vs []Violation
		if res.Panic != nil {
			vs = append(vs, Violation{"C12", 0, "", fmt.Sprintf("panic: %v", res.Panic)})
		}
		for _, ci := range a.Cycles {
			if len(ci.Evals[victim]) > 0 || (len(ci.SetRules) > 0 && ci.SetRules[0] == victim) {
				vs = append(vs, Violation{"C12", ci.N, victim, "the rule was removed before the knowledge base was stored, but it is evaluated / fired in the loaded one"})
				break
			}
		}
		vs = append(vs, MonFiresOnlyWhenTrue(a)...)
		vs = append(vs, MonCandidatesComplete(a)...)
		vs = append(vs, MonMaxSalience(a)...)
		vs = append(vs, MonReplayEqual(a)...)
		if len(vs) > 0 {
			cr.violate(fmt.Sprintf("knowledge base stored after removing rule %s: an instance of the loaded one does not behave like the remaining rules: %s", victim, joinViol(vs[:min(2, len(vs))])), caseDetail(text, "grb", init, res, vs))
			return false
		}
		cr.inc("store_after_removal_runs")
	}
	return true
}

// c12CrossProcess: see child.go (grbstore / grbextend); false = violation.
func c12CrossProcess(cr *CaseResult) bool {
	dir, err := os.MkdirTemp(c20WorkDir(), "x")
	if err != nil {
		cr.inconclusive("no scratch directory for the cross-process round trip")
		return true
	}
	defer os.RemoveAll(dir)
	file := filepath.Join(dir, "kb.grb")
	run := func(mode string) (string, error) {
		out, err := exec.Command(os.Args[0], "child", mode, file).CombinedOutput()
		for _, l := range strings.Split(string(out), "\n") {
			if strings.HasPrefix(l, "RESULT ") {
				return strings.TrimPrefix(l, "RESULT "), err
			}
		}
		return trunc(string(out), 300), err
	}
	r1, err1 := run("grbstore")
	if err1 != nil || !strings.HasPrefix(r1, "stored") {
		cr.inconclusive("the storing child process failed: " + trunc(r1, 80))
		return true
	}
	r2, err2 := run("grbextend")
	cr.Evals++
	want := "ran A=3 B=2 C=1 err=<nil> panic=<nil>"
	if err2 != nil || r2 != want {
		cr.violate(fmt.Sprintf("a knowledge base stored by one process, loaded by another process that then builds one more rule into it: %s (exit %v), expected %q", r2, err2, want),
			map[string]interface{}{"stored_rules": c12XText, "rule_built_after_loading": c12XMore})
		return false
	}
	cr.inc("cross_process_round_trips")
	return true
}

// c12Big stores, loads and runs a rule set with very large fields; false = violation.
func c12Big(c *Ctx, idx int, cr *CaseResult) bool {
	r := c.Rng(idx, 9000)
	big := strings.Repeat("0123456789abcdef", 4200+r.Intn(600)) // ~70 KB
	var conj strings.Builder
	n := 60 + r.Intn(60)
	for i := 0; i < n; i++ {
		fmt.Fprintf(&conj, "F.A != %d && ", 1000+i)
	}
	text := `rule Big "large literal" salience 2 { when F.S1 != "` + big + `" && F.A < 3 then F.A = F.A + 1; F.S2 = "` + big[:1000] + `"; }
rule Wide "many conjuncts" salience 1 { when ` + conj.String() + `F.B < 2 then F.B = F.B + 1; }`
	lib, err := BuildLib(text)
	if err != nil {
		cr.inconclusive("large rule set rejected by the builder (judged by C17)")
		return true
	}
	cur := lib
	for round := 1; round <= 2; round++ {
		var b bytes.Buffer
		if err := cur.StoreKnowledgeBaseToWriter(&b, kbName, kbVer); err != nil {
			cr.violate(fmt.Sprintf("store (generation %d) of a rule set with a %d-byte string literal and %d conjuncts failed: %v", round, len(big), n, err), map[string]interface{}{"literal_bytes": len(big), "conjuncts": n})
			return false
		}
		l2, err, pn := loadVia("plain", b.Bytes())
		cr.Evals++
		if err != nil || pn != nil {
			cr.violate(fmt.Sprintf("generation %d: the stored stream (%d bytes) of a rule set with a %d-byte string literal and %d conjuncts does not load: err=%v panic=%v", round, b.Len(), len(big), n, err, pn), map[string]interface{}{"literal_bytes": len(big), "conjuncts": n})
			return false
		}
		// behaviour: both rules count up to their bounds
		inst, err := l2.NewKnowledgeBaseInstance(kbName, kbVer)
		if err != nil {
			cr.violate(fmt.Sprintf("generation %d: no instance of the loaded large knowledge base: %v", round, err), nil)
			return false
		}
		st := GenState(c.Rng(idx, 9001))
		f := st["F"].(*Fact)
		f.A, f.B, f.S1 = 0, 0, "x"
		res := Run(inst, nil, st, RunCfg{MaxCycle: 20, NoSnap: true})
		cr.Evals++
		if res.Err != nil || res.Panic != nil || f.A != 3 || f.B != 2 || f.S2 != big[:1000] {
			cr.violate(fmt.Sprintf("generation %d: the loaded large knowledge base does not behave like the stored rules: A=%d (want 3) B=%d (want 2) err=%v panic=%v", round, f.A, f.B, res.Err, res.Panic), nil)
			return false
		}
		cr.inc("large_field_round_trips")
		cur = l2
	}
	return true
}

var c12Opts = TraceOpts{MinRules: 1, MaxRules: 4, MinPool: 3, MaxPool: 7, Control: true, Announce: true, Calls: true, Strs: true, Times: true, Depth: 3}

func runC12Case(c *Ctx, idx int) *CaseResult {
	cr := &CaseResult{}
	r := c.Rng(idx, 0)
	prog := GenTraceProgram(r, c12Opts)
	style := traceStyle(c.Rng(idx, 1))
	if style.Redundant {
		DecorateProgram(prog, c.Rng(idx, 2))
	}
	text := style.PrintProgram(prog)
	withZoo := idx%2 == 0
	texts := []string{text}
	if withZoo {
		texts = append(texts, zooRule)
	}
	lib, err := BuildLib(texts...)
	if err != nil {
		cr.inconclusive("generated program rejected by the builder (judged by C17): " + trunc(err.Error(), 50))
		return cr
	}
	orig := lib.GetKnowledgeBase(kbName, kbVer)
	wantCanon := CanonKB(orig, false)
	// ---- store
	w := &recWriter{}
	if err := lib.StoreKnowledgeBaseToWriter(w, kbName, kbVer); err != nil {
		cr.violate("store of a successfully built knowledge base failed: "+err.Error(), map[string]interface{}{"grl": text})
		return cr
	}
	stream := w.buf.Bytes()
	cr.Evals++
	cr.addn("stream_bytes", len(stream))
	cr.addn("write_calls", len(w.sizes))
	// ---- (a) round trip, twice, through every legal reader
	cur := stream
	var next []byte
	for round := 1; round <= 2; round++ {
		for _, rd := range []string{"plain", "onebyte", "half", "dataerr"} {
			l2, err, pn := loadVia(rd, cur)
			cr.Evals++
			if pn != nil || err != nil {
				cr.violate(fmt.Sprintf("round %d: a stream written by StoreKnowledgeBaseToWriter does not load through the %s reader: err=%v panic=%v", round, rd, err, pn), map[string]interface{}{"grl": text})
				return cr
			}
			kb2 := l2.GetKnowledgeBase(kbName, kbVer)
			if got := CanonKB(kb2, false); got != wantCanon {
				cr.violate(fmt.Sprintf("round %d (%s reader): the loaded knowledge base differs from the stored one: %s", round, rd, DiffCanon(got, wantCanon)), map[string]interface{}{"grl": text})
				return cr
			}
			if rd == "plain" {
				// behaviour: instances of the loaded base judged with the ORIGINAL program as specification
				for si := 0; si < 2; si++ {
					inst, err := l2.NewKnowledgeBaseInstance(kbName, kbVer)
					if err != nil {
						cr.violate(fmt.Sprintf("round %d: no instance of the loaded knowledge base: %v", round, err), map[string]interface{}{"grl": text})
						return cr
					}
					if withZoo {
						inst.RemoveRuleEntry("Zoo")
					}
					init := GenState(c.Rng(idx, 100+si))
					cfg := RunCfg{MaxCycle: uint64(5 + si*20)}
					res := Run(inst, prog, CopyStateLive(init), cfg)
					cr.Evals++
					a := Analyze(prog, res, cfg, nil)
					var vs []Violation
					if res.Panic != nil {
						vs = append(vs, Violation{"C12", 0, "", fmt.Sprintf("panic: %v", res.Panic)})
					}
					vs = append(vs, MonFiresOnlyWhenTrue(a)...)
					vs = append(vs, MonCandidatesComplete(a)...)
					vs = append(vs, MonMaxSalience(a)...)
					vs = append(vs, MonReplayEqual(a)...)
					vs = append(vs, MonControl(a)...)
					vs = append(vs, MonSalienceDeclared(a)...)
					if len(vs) > 0 {
						cr.violate(fmt.Sprintf("round %d: an instance of the loaded knowledge base does not behave like the stored rules: %s", round, joinViol(vs[:min(2, len(vs))])), caseDetail(text, "grb", init, res, vs))
						return cr
					}
					if len(a.Firings()) > 1 {
						cr.NonTrivial = append(cr.NonTrivial, hashStr(fmt.Sprintf("rt|%s|%d|%d", text, round, si)))
					}
				}
				// store again for the second round
				var b2 bytes.Buffer
				if err := l2.StoreKnowledgeBaseToWriter(&b2, kbName, kbVer); err != nil {
					cr.violate("second store failed: "+err.Error(), map[string]interface{}{"grl": text})
					return cr
				}
				next = append([]byte(nil), b2.Bytes()...)
			}
		}
		if round == 1 {
			cur = next
		}
	}
	// ---- (a') behaviour of loaded rule sets that depend on the stored texts: Forget/Changed of
	// a variable and of a call, which the engine resolves through the texts kept in the nodes
	nb := 12
	if c.Tier == "thorough" {
		nb = 60
	}
	for bi := 0; bi < nb; bi++ {
		if !c12Behaviour(c, idx, bi, cr) {
			return cr
		}
	}
	// ---- (a'') large legal fields: a string literal of ~70 KB and a condition of many conjuncts
	// (no length a valid rule set can reach may be mistaken for a damaged length prefix)
	if idx%4 == 0 {
		if !c12Big(c, idx, cr) {
			return cr
		}
	}
	// ---- (a3) one process stores, another process (that built nothing before) loads, builds
	// one more rule into the loaded knowledge base, creates an instance and runs it
	if idx%4 == 1 {
		if !c12CrossProcess(cr) {
			return cr
		}
	}
	// ---- (b) truncation: every offset (plain reader); boundaries +-1 and a sample through hostile readers
	bounds := map[int]bool{}
	off := 0
	for _, s := range w.sizes {
		off += s
		bounds[off] = true
	}
	// quick: every field boundary and its neighbours, plus a seeded sample of offsets inside
	// fields; thorough: every offset of the stream
	inside := map[int]bool{}
	if c.Tier != "thorough" {
		pr0 := c.Rng(idx, 6)
		for i := 0; i < 1000 && i < len(stream); i++ {
			inside[pr0.Intn(len(stream))] = true
		}
		// the two neighbours of a quota of boundaries
		for b := range bounds {
			if pr0.Intn(len(bounds)/300+1) == 0 {
				inside[b-1], inside[b+1] = true, true
			}
		}
	}
	for n := 0; n < len(stream); n++ {
		atBound := bounds[n] || n == 0
		if c.Tier != "thorough" && !atBound && !inside[n] {
			continue
		}
		_, err, pn := loadVia("plain", stream[:n])
		cr.Evals++
		if atBound {
			cr.inc("truncations_at_field_boundary")
		} else {
			cr.inc("truncations_inside_field")
		}
		if pn != nil {
			cr.violate(fmt.Sprintf("loading the stream cut at byte %d of %d panics: %v", n, len(stream), pn), map[string]interface{}{"grl": text, "offset": n})
			return cr
		}
		if err == nil {
			cr.violate(fmt.Sprintf("the stream cut at byte %d of %d (field boundary: %v) loads without error", n, len(stream), atBound), map[string]interface{}{"grl": text, "offset": n, "at_field_boundary": atBound})
			return cr
		}
		if atBound {
			cr.NonTrivial = append(cr.NonTrivial, hashStr(fmt.Sprintf("cut|%s|%d", text, n)))
		}
	}
	var blist []int
	for b := range bounds {
		blist = append(blist, b)
	}
	sort.Ints(blist)
	pr := c.Rng(idx, 7)
	for i, b := range blist {
		quota := 120
		if c.Tier == "thorough" {
			quota = 1500
		}
		if len(blist) > quota && pr.Intn(len(blist)/quota+1) != 0 && i > 20 && i < len(blist)-20 {
			continue
		}
		for _, n := range []int{b - 1, b, b + 1} {
			if n < 0 || n >= len(stream) {
				continue
			}
			for _, rd := range []string{"onebyte", "half", "dataerr"} {
				_, err, pn := loadVia(rd, stream[:n])
				cr.Evals++
				cr.inc("truncations_through_hostile_readers")
				if pn != nil || err == nil {
					cr.violate(fmt.Sprintf("the stream cut at byte %d of %d loads without error through the %s reader (panic=%v)", n, len(stream), rd, pn), map[string]interface{}{"grl": text, "offset": n, "reader": rd})
					return cr
				}
			}
		}
	}
	// ---- (c) failing writer at every call index
	ncalls := len(w.sizes)
	fwr := c.Rng(idx, 8)
	for k := 1; k <= ncalls; k++ {
		// quick: the first 150 and the last 50 call indices and a seeded quota of ~600 others; thorough: every index
		if c.Tier != "thorough" && k > 150 && k < ncalls-50 && fwr.Intn(ncalls/600+1) != 0 {
			continue
		}
		for _, fl := range []string{"error", "partial"} {
			fw := &failWriter{k: k, flavour: fl}
			err := lib.StoreKnowledgeBaseToWriter(fw, kbName, kbVer)
			cr.Evals++
			cr.inc("failing_writer_" + fl)
			if err == nil {
				cr.violate(fmt.Sprintf("the writer failed at its call %d of %d (%s) but the store returned nil", k, ncalls, fl), map[string]interface{}{"grl": text, "write_call": k})
				return cr
			}
			if k%97 == 0 {
				cr.NonTrivial = append(cr.NonTrivial, hashStr(fmt.Sprintf("fw|%s|%d", text, k)))
			}
		}
	}
	// ---- (d) overwrite=false leaves an existing entry untouched
	other, err := BuildLib(`rule Keep "existing" salience 7 { when F.A == 424242 then F.B = 1; }`)
	if err == nil {
		before := CanonKB(other.GetKnowledgeBase(kbName, kbVer), false)
		ptr := other.GetKnowledgeBase(kbName, kbVer)
		_, lerr := other.LoadKnowledgeBaseFromReader(bytes.NewReader(stream), false)
		cr.Evals++
		after := other.GetKnowledgeBase(kbName, kbVer)
		if lerr == nil {
			cr.violate("load with overwrite=false into a library that already holds this name/version returned nil", map[string]interface{}{"grl": text})
			return cr
		}
		if after != ptr || CanonKB(after, false) != before {
			cr.violate("load with overwrite=false replaced or modified the existing entry", map[string]interface{}{"grl": text})
			return cr
		}
		// the same for existing entries that hold no rule (yet / any more): created by
		// GetKnowledgeBase and not filled, or emptied by removing its only rule
		for variant := 0; variant < 2; variant++ {
			hollow := ast.NewKnowledgeLibrary()
			if variant == 1 {
				hollow, _ = BuildLib(`rule Keep "existing" salience 7 { when F.A == 424242 then F.B = 1; }`)
				hollow.RemoveRuleEntry("Keep", kbName, kbVer)
			}
			hp := hollow.GetKnowledgeBase(kbName, kbVer)
			hbefore := CanonKB(hp, false)
			_, herr := hollow.LoadKnowledgeBaseFromReader(bytes.NewReader(stream), false)
			cr.Evals++
			if herr == nil || hollow.GetKnowledgeBase(kbName, kbVer) != hp || CanonKB(hp, false) != hbefore {
				cr.violate(fmt.Sprintf("load with overwrite=false into a library whose entry of this name/version exists but holds no rule (%s): err=%v, entry replaced=%v",
					[]string{"created by GetKnowledgeBase", "its only rule was removed"}[variant], herr, hollow.GetKnowledgeBase(kbName, kbVer) != hp), map[string]interface{}{"grl": text})
				return cr
			}
			cr.inc("overwrite_false_on_hollow_entry_checks")
		}
		// overwrite=true replaces it
		if _, lerr := other.LoadKnowledgeBaseFromReader(bytes.NewReader(stream), true); lerr != nil || CanonKB(other.GetKnowledgeBase(kbName, kbVer), false) != wantCanon {
			cr.violate(fmt.Sprintf("load with overwrite=true did not install the stored knowledge base (err=%v)", lerr), map[string]interface{}{"grl": text})
			return cr
		}
		// overwrite=false into an empty library installs it
		empty := ast.NewKnowledgeLibrary()
		if _, lerr := empty.LoadKnowledgeBaseFromReader(bytes.NewReader(stream), false); lerr != nil {
			cr.violate("load with overwrite=false into an empty library failed: "+lerr.Error(), map[string]interface{}{"grl": text})
			return cr
		}
		cr.inc("overwrite_false_checks")
	}
	if cr.Sample == nil {
		cr.Sample = map[string]interface{}{"grl": trunc(text, 800), "stream_bytes": len(stream), "write_calls": ncalls, "field_boundaries": len(bounds), "with_zoo_rule": withZoo}
	}
	return cr
}

func init() {
	register(&Check{
		ID: "C12", Level: "fault_enumeration",
		Rule: "generated rule sets (every node type and flag the format stores; every second one with a fixed 'zoo' rule holding nil, all five assignment forms, negations, selectors, method chains, every constant type); per program: store (Write-call sizes recorded = field boundaries); (a) load through 4 legal readers, canonical form incl. GRL text compared with the stored base, instances of the loaded base judged by the per-run monitors with the ORIGINAL program as specification, store again and repeat; (b) truncation must fail to load: quick = EVERY field boundary, both neighbours of ~300 of them and 1000 seeded offsets inside fields, thorough = EVERY offset of the stream; a quota of boundaries +-1 also through one-byte / half / data-with-EOF readers; (c) the writer fails at its k-th call in 2 flavours (error, partial write then error) and the store must return an error: quick = first 150, last 50 and ~600 seeded indices per program, thorough = EVERY index; (d) overwrite=false must fail and leave the existing entry untouched; non-trivial = distinct truncations exactly at a field boundary, sampled writer indices, and round-trip runs with >=2 firings; per case 12 (thorough 60) small announce-dense programs (Forget / Changed of a call text, also one with a blank inside a string argument) through two store/load generations judged by the trace monitors, then store after removing a rule (library or blueprint level) and load again; (d) also for existing entries that hold no rule (created by GetKnowledgeBase / only rule removed); every fourth case: a ~70 KB string literal and a condition of 60-120 conjuncts through two generations; every fourth case: a child process stores, a second child process that built nothing loads, builds one more rule into the loaded knowledge base, instantiates and runs it",
		Assume: []string{"reference interpreter for the behavioural half", "the serializer's unsynchronised package-level byte counters are not judged (cases run in parallel in a non-race build)"},
		Cases:  tierN(16, 120),
		Run:    runC12Case,
	})
}
