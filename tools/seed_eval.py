#!/usr/bin/env python3
"""Confirms a seeded change (patch + demonstration) and runs the checks against it.

usage: tools/seed_eval.py <src-dir> <seed-id> <property> [check ids...]
  <src-dir> holds patch.diff, demo_test.go, notes.md (as delivered by a sub-agent)
Steps (all in a scratch copy of /repo outside /repo and /verif, removed afterwards):
  1. demo on the unchanged tree      -> must pass
  2. patch applies, module builds
  3. demo with the change            -> must fail
  4. repository suite with the change-> stable baseline must still pass (skipped with --nosuite)
  5. each named check (quick tier) against the changed tree -> exit code recorded
On success the files are copied to /verif/seeded/<seed-id>/ with meta.json.
"""
import json, os, re, shutil, subprocess, sys, tempfile

VERIF = os.path.dirname(os.path.dirname(os.path.abspath(__file__)))
ENV = dict(os.environ)
GO = "/root/go/pkg/mod/golang.org/toolchain@v0.0.1-go1.24.4.linux-amd64/bin"
ENV.update({"PATH": GO + ":" + ENV["PATH"], "GOFLAGS": "-mod=mod", "GOPROXY": "off", "GOSUMDB": "off", "GOTOOLCHAIN": "local"})

def sh(cmd, cwd, timeout=3600):
    p = subprocess.run(cmd, shell=True, cwd=cwd, env=ENV, stdout=subprocess.PIPE, stderr=subprocess.STDOUT, timeout=timeout)
    return p.returncode, p.stdout.decode(errors="replace")

def main():
    args = [a for a in sys.argv[1:] if not a.startswith("--")]
    nosuite = "--nosuite" in sys.argv
    tier = "quick"
    for a in sys.argv[1:]:
        if a.startswith("--tier="):
            tier = a.split("=")[1]
    src, sid, prop = args[0], args[1], args[2]
    checks = args[3:] or [prop]
    demo = open(os.path.join(src, "demo_test.go")).read()
    pkg = re.search(r"^package\s+(\w+)", demo, re.M).group(1)
    pkgdir = pkg[:-5] if pkg.endswith("_test") else pkg
    m = re.search(r"copy (?:it )?(?:to|into) `?([\w/]+)/?`?", open(os.path.join(src, "notes.md")).read()) if os.path.exists(os.path.join(src, "notes.md")) else None
    tests = re.findall(r"^func (Test\w+)\(", demo, re.M)
    runre = "^(" + "|".join(tests) + ")$"
    scr = tempfile.mkdtemp(prefix="seedeval.", dir="/tmp")
    meta = {"seed_id": sid, "property": prop, "demo_package_dir": pkgdir, "demo_tests": tests}
    try:
        repo = os.path.join(scr, "repo")
        sh("rsync -a --exclude .git /repo/ %s/" % repo, "/")
        if not os.path.isdir(os.path.join(repo, pkgdir)):
            print("cannot place demo: no dir", pkgdir); return 2
        shutil.copy(os.path.join(src, "demo_test.go"), os.path.join(repo, pkgdir, "zz_seed_demo_test.go"))
        rc, out = sh("go test -vet=off -count=1 -run '%s' ./%s/" % (runre, pkgdir), repo)
        meta["demo_on_unchanged_tree"] = "pass" if rc == 0 else "FAIL"
        if rc != 0:
            print(out[-1500:]); print("REJECT: demo fails on the unchanged tree"); return 1
        rc, out = sh("patch -p1 -s < %s" % os.path.abspath(os.path.join(src, "patch.diff")), repo)
        if rc != 0:
            print(out); print("REJECT: patch does not apply"); return 1
        rc, out = sh("go build ./...", repo)
        if rc != 0:
            print(out); print("REJECT: does not build"); return 1
        rc, out = sh("go test -vet=off -count=1 -run '%s' ./%s/" % (runre, pkgdir), repo)
        meta["demo_with_change"] = "fail" if rc != 0 else "PASS"
        if rc == 0:
            print("REJECT: demo passes with the change"); return 1
        os.remove(os.path.join(repo, pkgdir, "zz_seed_demo_test.go"))
        if not nosuite:
            rc, out = sh("go test -json -vet=off -count=1 -timeout 25m ./... > ../suite.json 2>/dev/null; true", repo)
            base = json.load(open("/root/.vp/BASELINE.json"))
            res = {}
            for l in open(os.path.join(scr, "suite.json")):
                try: e = json.loads(l)
                except Exception: continue
                if e.get("Test") and e.get("Action") in ("pass", "fail", "skip"):
                    res[e["Package"] + "::" + e["Test"]] = e["Action"]
            bad = [t for t in base["stable_pass"] if res.get(t) != "pass"]
            meta["suite_with_change"] = "all %d stable baseline tests pass" % len(base["stable_pass"]) if not bad else "BROKEN: " + ", ".join(bad)
            if bad:
                print("REJECT: suite breaks:", bad); return 1
        # run the checks
        env = dict(ENV); env.update({"VERIF_REPO": repo, "VERIF_EVIDENCE_DIR": os.path.join(scr, "ev"), "VERIF_REPLAY_DIR": os.path.join(scr, "rp")})
        results = {}
        for cid in checks:
            p = subprocess.run([os.path.join(VERIF, "check"), cid, tier], cwd=VERIF, env=env, stdout=subprocess.PIPE, stderr=subprocess.STDOUT)
            out = p.stdout.decode(errors="replace")
            first = ""
            mm = re.search(r"^VIOLATION.*\n(.*)", out, re.M)
            if mm: first = mm.group(1).strip()[:400]
            results[cid] = {"exit": p.returncode, "violation_lines": len(re.findall(r"^VIOLATION", out, re.M)), "first": first}
            print("  check %s %s -> exit %d  %s" % (cid, tier, p.returncode, first[:200]))
            if p.returncode not in (0, 1):
                print(out[-800:])
        meta["checks_" + tier] = results
        meta["caught_by"] = [c for c, r in results.items() if r["exit"] == 1]
        dst = os.path.join(VERIF, "seeded", sid)
        os.makedirs(dst, exist_ok=True)
        for f in ("patch.diff", "demo_test.go", "notes.md"):
            if os.path.exists(os.path.join(src, f)) and os.path.abspath(src) != os.path.abspath(dst):
                shutil.copy(os.path.join(src, f), os.path.join(dst, f))
        old = {}
        if os.path.exists(os.path.join(dst, "meta.json")):
            old = json.load(open(os.path.join(dst, "meta.json")))
        # results of checks not rerun this time are kept
        merged = dict(old.get("checks_" + tier, {})); merged.update(results)
        meta["checks_" + tier] = merged
        meta["caught_by"] = sorted(c for c, r in merged.items() if r["exit"] == 1)
        old.update(meta)
        json.dump(old, open(os.path.join(dst, "meta.json"), "w"), indent=1)
        print("KEPT %s: caught by %s" % (sid, meta["caught_by"]))
        return 0
    finally:
        shutil.rmtree(scr, ignore_errors=True)
        tag = subprocess.run("printf '%s' '" + os.path.join(scr, "repo") + "' | cksum | cut -d' ' -f1", shell=True, stdout=subprocess.PIPE).stdout.decode().strip()
        for f in os.listdir(os.path.join(VERIF, "bin")):
            if ("." + tag) in f:
                os.remove(os.path.join(VERIF, "bin", f))

if __name__ == "__main__":
    sys.exit(main())
