package main

// C16: rule names stay unique; removed rules never fire again.
// Histories of operations on a library are compared step by step with a model
// kb -> name -> (unique id of the rule text | absent); after every step a probe (one
// FetchMatchingRules and one Execute on a fresh instance) reveals which texts are alive.

import (
	"bytes"
	"fmt"
	"sort"
	"strings"

	"github.com/hyperjumptech/grule-rule-engine/ast"
	"github.com/hyperjumptech/grule-rule-engine/builder"
	"github.com/hyperjumptech/grule-rule-engine/engine"
	"github.com/hyperjumptech/grule-rule-engine/pkg"
)

// PF is the probe fact.
type PF struct {
	On    bool
	Fired map[string]int64
	Count map[string]int64 // firings per rule name (every probe rule retracts itself: exactly one)
	kb    *ast.KnowledgeBase
}

// Drop removes a rule from the instance that is being executed (removal in the middle of a run).
func (f *PF) Drop(name string) {
	if f.kb != nil {
		f.kb.RemoveRuleEntry(name)
	}
}

// c16MidRunRemoval: a rule removed from an instance by an action of a running Execute never
// fires again on that instance - not in the rest of that run, not in later runs - while a new
// instance of the library still has it.
func c16MidRunRemoval(cr *CaseResult) {
	text := c16RuleText("R1", 1) + "\n" + c16RuleText("R2", 2) + "\n" +
		`rule Dropper "removes R1 from the running instance" salience 100 { when F.On then F.Drop("R1"); Retract("Dropper"); }`
	lib := ast.NewKnowledgeLibrary()
	if err := builder.NewRuleBuilder(lib).BuildRuleFromResource("m", "1", pkg.NewBytesResource([]byte(text))); err != nil {
		cr.inconclusive("mid-run removal scenario rejected by the builder")
		return
	}
	inst, err := lib.NewKnowledgeBaseInstance("m", "1")
	if err != nil {
		cr.inconclusive("instance creation failed (judged by C09)")
		return
	}
	for run := 1; run <= 2; run++ {
		f := &PF{On: true, Fired: map[string]int64{}, Count: c16Counts(), kb: inst}
		dc := ast.NewDataContext()
		dc.Add("F", f)
		e := engine.NewGruleEngine()
		e.MaxCycle = 50
		if err := e.Execute(dc, inst); err != nil {
			cr.violate("mid-run removal scenario: Execute fails: "+err.Error(), map[string]interface{}{"grl": text, "run": run})
			return
		}
		cr.Evals++
		if _, fired := f.Fired["R1"]; fired {
			cr.violate(fmt.Sprintf("rule R1 was removed from the instance by an action of run 1 (salience 100, before R1 could fire) but fired in run %d on that instance", run), map[string]interface{}{"grl": text, "run": run})
			return
		}
		if _, fired := f.Fired["R2"]; !fired {
			cr.violate("removing R1 in the middle of a run affected R2", map[string]interface{}{"grl": text, "run": run})
			return
		}
	}
	fresh, err := lib.NewKnowledgeBaseInstance("m", "1")
	if err != nil {
		cr.violate("NewKnowledgeBaseInstance fails after a removal on another instance: "+err.Error(), map[string]interface{}{"grl": text})
		return
	}
	f := &PF{On: true, Fired: map[string]int64{}, Count: c16Counts()} // kb == nil: Drop is a no-op here
	dc := ast.NewDataContext()
	dc.Add("F", f)
	e := engine.NewGruleEngine()
	e.MaxCycle = 50
	if err := e.Execute(dc, fresh); err != nil || f.Fired["R1"] != 1 || f.Fired["R2"] != 2 {
		cr.violate(fmt.Sprintf("a removal on an instance changed the library: a new instance fired %v (err %v)", f.Fired, err), map[string]interface{}{"grl": text})
		return
	}
	cr.inc("mid_run_removal_scenarios")
}

func c16Counts() map[string]int64 {
	return map[string]int64{"R1": 0, "R2": 0, "R3": 0, "Deleted_R1": 0}
}

type kbKey struct{ name, ver string }

func c16RuleText(name string, id int64) string {
	return fmt.Sprintf(`rule %s "v%d" salience %d { when F.On && F.Fired.Len() >= 0 then F.Count["%s"] = F.Count["%s"] + 1; F.Fired["%s"] = %d; Retract("%s"); }`, name, id, id%7, name, name, name, id, name)
}

func c16ProbeInst(inst *ast.KnowledgeBase) (string, error) {
	f := &PF{On: true, Fired: map[string]int64{}, Count: c16Counts()}
	dc := ast.NewDataContext()
	if err := dc.Add("F", f); err != nil {
		return "", err
	}
	e := engine.NewGruleEngine()
	e.MaxCycle = 200
	var ms []*ast.RuleEntry
	var err error
	func() {
		defer func() {
			if p := recover(); p != nil {
				err = fmt.Errorf("panic: %v", p)
			}
		}()
		ms, err = e.FetchMatchingRules(dc, inst)
		if err != nil {
			err = fmt.Errorf("fetch: %w", err)
			return
		}
		if e2 := e.Execute(dc, inst); e2 != nil {
			err = fmt.Errorf("execute: %w", e2)
		}
	}()
	if err != nil {
		return "", err
	}
	for n, cnt := range f.Count {
		if cnt > 1 {
			return "", fmt.Errorf("rule %s fired %d times in one Execute although its first firing retracts it", n, cnt)
		}
	}
	var out, mn, fn []string
	for n, id := range f.Fired {
		out = append(out, fmt.Sprintf("%s=%d", n, id))
		fn = append(fn, n)
	}
	for _, m := range ms {
		mn = append(mn, m.RuleName)
	}
	sort.Strings(out)
	sort.Strings(mn)
	sort.Strings(fn)
	if strings.Join(fn, ",") != strings.Join(mn, ",") {
		return "", fmt.Errorf("FetchMatchingRules returned %v but Execute fired %v", mn, fn)
	}
	return strings.Join(out, ","), nil
}

func c16Probe(lib *ast.KnowledgeLibrary, k kbKey) (got string, err error) {
	defer func() {
		if p := recover(); p != nil {
			err = fmt.Errorf("panic: %v", p)
		}
	}()
	inst, err := lib.NewKnowledgeBaseInstance(k.name, k.ver)
	if err != nil {
		return "", fmt.Errorf("NewKnowledgeBaseInstance: %w", err)
	}
	return c16ProbeInst(inst)
}

func c16Model(m map[string]int64) string {
	var out []string
	for n, id := range m {
		out = append(out, fmt.Sprintf("%s=%d", n, id))
	}
	sort.Strings(out)
	return strings.Join(out, ",")
}

func runC16Case(c *Ctx, idx int) *CaseResult {
	cr := &CaseResult{}
	r := c.Rng(idx, 0)
	kbs := []kbKey{{"a", "1"}, {"a:b", "c"}, {"a", "b:c"}, {"a\\", ":1"}}
	nk := 1 + r.Intn(3)
	if r.Intn(4) == 0 {
		nk = 4
	}
	kbs = kbs[:nk]
	names := []string{"R1", "R2", "R3", "Deleted_R1"}[:2+r.Intn(3)]
	lib := ast.NewKnowledgeLibrary()
	rb := builder.NewRuleBuilder(lib)
	model := map[kbKey]map[string]int64{}
	var nextID int64 = 1
	var log []string
	removed := map[string]bool{}
	nontrivial := false
	fail := func(msg string) *CaseResult {
		cr.violate(msg, map[string]interface{}{"history": log})
		return cr
	}
	steps := 3 + r.Intn(12)
	for s := 0; s < steps; s++ {
		k := kbs[r.Intn(len(kbs))]
		switch op := r.Intn(9); op {
		case 0, 1, 2: // build one or several rules (fresh, duplicate or reused names)
			cnt := 1 + r.Intn(3)
			var txt []string
			exp := map[string]int64{}
			wantErr := false
			for i := 0; i < cnt; i++ {
				nm := names[r.Intn(len(names))]
				id := nextID
				nextID++
				txt = append(txt, c16RuleText(nm, id))
				if _, dup := exp[nm]; dup {
					wantErr = true
					continue
				}
				if model[k] != nil {
					if _, dup := model[k][nm]; dup {
						wantErr = true
						continue
					}
				}
				exp[nm] = id
				if removed[k.name+"|"+k.ver+"|"+nm] {
					nontrivial = true // rebuild after removal
				}
			}
			// sometimes the text ends in a cut-off rule (header only, or cut inside the body) that
			// names an existing or a new rule: the build must fail and change nothing that exists
			if r.Intn(6) == 0 {
				nm := names[r.Intn(len(names))]
				cut := []string{`rule %s`, `rule %s "cut" salience 10`, `rule %s "cut" {`, `rule %s "cut" { when F.On then`}[r.Intn(4)]
				txt = append(txt, fmt.Sprintf(cut, nm))
				wantErr = true
				cr.inc("builds_ending_in_a_cut_off_rule")
			}
			var err error
			func() {
				defer func() {
					if p := recover(); p != nil {
						err = fmt.Errorf("panic: %v", p)
					}
				}()
				// one text, or one resource per rule through the multi-resource entry points
				switch entry := r.Intn(5); {
				case entry <= 1 && len(txt) > 1:
					var rs []pkg.Resource
					for _, t := range txt {
						rs = append(rs, pkg.NewBytesResource([]byte(t)))
					}
					if entry == 0 {
						err = rb.BuildRuleFromResources(k.name, k.ver, rs)
						cr.inc("builds_through_BuildRuleFromResources")
					} else {
						err = rb.BuildRulesFromBundle(k.name, k.ver, sliceBundle(rs))
						cr.inc("builds_through_BuildRulesFromBundle")
					}
				default:
					err = rb.BuildRuleFromResource(k.name, k.ver, pkg.NewBytesResource([]byte(strings.Join(txt, "\n"))))
				}
			}()
			log = append(log, fmt.Sprintf("build into %q/%q: %s -> error=%v", k.name, k.ver, strings.Join(txt, " | "), err != nil))
			cr.inc("op_build")
			cr.Evals++
			if err != nil && strings.HasPrefix(err.Error(), "panic") {
				return fail("BuildRuleFromResource panicked: " + err.Error())
			}
			if (err != nil) != wantErr {
				if wantErr {
					return fail("building a rule whose name already exists returned nil")
				}
				return fail("building rules with fresh or reusable names failed: " + err.Error())
			}
			if wantErr {
				cr.inc("duplicate_builds_rejected")
			}
			if model[k] == nil {
				model[k] = map[string]int64{}
			}
			if err == nil {
				for nm, id := range exp {
					model[k][nm] = id
				}
			} else {
				// the existing rules must stay in force; non-duplicate rules of the rejected text may
				// or may not have been kept (the property does not say): the model follows the probe
				// for those new names only
				got, perr := c16Probe(lib, k)
				if perr != nil {
					return fail("after a rejected duplicate build the knowledge base is damaged: " + perr.Error())
				}
				for nm, id := range exp {
					if strings.Contains(","+got+",", fmt.Sprintf(",%s=%d,", nm, id)) {
						model[k][nm] = id
					}
				}
			}
		case 3: // remove from the library
			if model[k] == nil {
				continue
			}
			nm := names[r.Intn(len(names))]
			lib.RemoveRuleEntry(nm, k.name, k.ver)
			if _, ok := model[k][nm]; ok {
				removed[k.name+"|"+k.ver+"|"+nm] = true
			} else if removed[k.name+"|"+k.ver+"|"+nm] {
				nontrivial = true // second removal
			}
			delete(model[k], nm)
			log = append(log, fmt.Sprintf("library.RemoveRuleEntry(%s) on %q/%q", nm, k.name, k.ver))
			cr.inc("op_library_remove")
		case 4: // remove on the library's knowledge base directly
			if model[k] == nil {
				continue
			}
			nm := names[r.Intn(len(names))]
			lib.GetKnowledgeBase(k.name, k.ver).RemoveRuleEntry(nm)
			if _, ok := model[k][nm]; ok {
				removed[k.name+"|"+k.ver+"|"+nm] = true
			} else if removed[k.name+"|"+k.ver+"|"+nm] {
				nontrivial = true
			}
			delete(model[k], nm)
			log = append(log, fmt.Sprintf("knowledgeBase.RemoveRuleEntry(%s) on %q/%q", nm, k.name, k.ver))
			cr.inc("op_kb_remove")
		case 5: // removal on an instance: never matches again there, library unaffected
			if model[k] == nil {
				continue
			}
			inst, err := lib.NewKnowledgeBaseInstance(k.name, k.ver)
			if err != nil {
				return fail("NewKnowledgeBaseInstance failed after a legal history: " + err.Error())
			}
			nm := names[r.Intn(len(names))]
			inst.RemoveRuleEntry(nm)
			if r.Intn(2) == 0 {
				inst.RemoveRuleEntry(nm)
			}
			want := map[string]int64{}
			for a, b := range model[k] {
				if a != nm {
					want[a] = b
				}
			}
			log = append(log, fmt.Sprintf("instance.RemoveRuleEntry(%s) on an instance of %q/%q", nm, k.name, k.ver))
			cr.inc("op_instance_remove")
			for rep := 0; rep < 2; rep++ {
				got, perr := c16ProbeInst(inst)
				cr.Evals++
				if perr != nil || got != c16Model(want) {
					return fail(fmt.Sprintf("instance after removing %s (probe %d): alive %q err %v, expected %q", nm, rep+1, got, perr, c16Model(want)))
				}
			}
			if _, ok := model[k][nm]; ok {
				nontrivial = true
			}
		case 6: // store -> load into the same library
			if model[k] == nil {
				continue
			}
			var buf bytes.Buffer
			if err := lib.StoreKnowledgeBaseToWriter(&buf, k.name, k.ver); err != nil {
				return fail("store failed after a legal history: " + err.Error())
			}
			if r.Intn(3) == 0 {
				_, err := lib.LoadKnowledgeBaseFromReader(bytes.NewReader(buf.Bytes()), false)
				log = append(log, fmt.Sprintf("store + load(overwrite=false) %q/%q -> error=%v", k.name, k.ver, err != nil))
				if err == nil {
					return fail("load with overwrite=false replaced an existing entry")
				}
			} else {
				_, err := lib.LoadKnowledgeBaseFromReader(bytes.NewReader(buf.Bytes()), true)
				log = append(log, fmt.Sprintf("store + load(overwrite=true) %q/%q -> %v", k.name, k.ver, err))
				if err != nil {
					return fail("load failed after a legal history: " + err.Error())
				}
			}
			if len(removed) > 0 {
				nontrivial = true
			}
			cr.inc("op_store_load_same_library")
		case 7: // store -> load into a new library, compare
			if model[k] == nil {
				continue
			}
			var buf bytes.Buffer
			if err := lib.StoreKnowledgeBaseToWriter(&buf, k.name, k.ver); err != nil {
				return fail("store failed after a legal history: " + err.Error())
			}
			l2 := ast.NewKnowledgeLibrary()
			if _, err := l2.LoadKnowledgeBaseFromReader(bytes.NewReader(buf.Bytes()), true); err != nil {
				return fail("load into a new library failed after a legal history: " + err.Error())
			}
			got, perr := c16Probe(l2, k)
			cr.Evals++
			log = append(log, fmt.Sprintf("store + load into a new library %q/%q", k.name, k.ver))
			cr.inc("op_store_load_new_library")
			if perr != nil || got != c16Model(model[k]) {
				return fail(fmt.Sprintf("after store/load into a new library: alive %q err %v, expected %q", got, perr, c16Model(model[k])))
			}
			// the loaded base accepts a rebuild of a removed name and rejects a duplicate
			if len(removed) > 0 {
				nontrivial = true
			}
		default: // instantiate only
			if model[k] == nil {
				continue
			}
			cr.inc("op_instantiate")
		}
		// probe every knowledge base after every step: no operation on one (name, version) may
		// change another
		for kk, m := range model {
			got, perr := c16Probe(lib, kk)
			cr.Evals++
			if perr != nil {
				return fail(fmt.Sprintf("knowledge base %q/%q is unusable after this history: %v", kk.name, kk.ver, perr))
			}
			if got != c16Model(m) {
				return fail(fmt.Sprintf("knowledge base %q/%q: alive rule texts %q, the history says %q", kk.name, kk.ver, got, c16Model(m)))
			}
		}
	}
	if idx%20 == 0 {
		c16MidRunRemoval(cr)
	}
	if nontrivial {
		cr.NonTrivial = append(cr.NonTrivial, hashStr(strings.Join(log, "\n")))
	}
	if idx < 40 && len(log) > 4 {
		cr.Sample = map[string]interface{}{"history": log}
	}
	return cr
}

func init() {
	register(&Check{
		ID: "C16", Level: "exploration",
		Rule: "histories of 3-14 operations in {build 1-3 rules (fresh / duplicate / reused names), library.RemoveRuleEntry, knowledgeBase.RemoveRuleEntry, removal on an instance (once or twice, probed twice), store+load into the same library (overwrite true/false), store+load into a new library, instantiate} over 1-4 knowledge bases whose (name, version) pairs collide under naive joining ('a:b'/'c' vs 'a'/'b:c'), names from a small alphabet incl. 'Deleted_R1'; oracle = model kb -> name -> unique text id, probed after EVERY step on EVERY knowledge base with one FetchMatchingRules and one Execute on a fresh instance (each rule records its text id); non-trivial = distinct histories containing a removal followed by a rebuild, a second removal, an instance probe or a store/load; builds go through BuildRuleFromResource (one text) or BuildRuleFromResources / BuildRulesFromBundle (one resource per rule)",
		Assume: []string{"non-duplicate rules of a rejected multi-rule text may or may not be kept (the model follows the probe for those new names only)"},
		Cases:  tierN(2500, 80000),
		Run:    runC16Case,
	})
}

// sliceBundle is a resource bundle over resources held in memory.
type sliceBundle []pkg.Resource

func (b sliceBundle) Load() ([]pkg.Resource, error) { return b, nil }
func (b sliceBundle) MustLoad() []pkg.Resource      { return b }
