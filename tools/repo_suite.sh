#!/bin/bash
# Runs the repository's own test suite (guard OFF: no -tags verif) on a scratch copy of
# /repo's working tree and compares with the stable baseline in /root/.vp/BASELINE.json.
# usage: tools/repo_suite.sh [git-rev]   (default: working tree of $VERIF_REPO)
. "$(dirname "$0")/../env.sh"
set -u
SCR=$(mktemp -d /tmp/reposuite.XXXXXX)
trap 'rm -rf "$SCR"' EXIT
if [ $# -ge 1 ]; then
  git -C "$VERIF_REPO" archive "$1" | tar -x -C "$SCR"
else
  rsync -a --exclude .git "$VERIF_REPO"/ "$SCR"/
fi
cd "$SCR" || exit 2
go test -json -vet=off -count=1 -timeout 25m ./... > "$SCR/out.json" 2>"$SCR/err.txt"
python3 - "$SCR/out.json" <<'PY'
import json,sys
base=json.load(open('/root/.vp/BASELINE.json'))
res={}
for l in open(sys.argv[1]):
    try: e=json.loads(l)
    except Exception: continue
    if e.get('Test') and e.get('Action') in('pass','fail','skip'):
        res[e['Package']+'::'+e['Test']]=e['Action']
bad=[t for t in base['stable_pass'] if res.get(t)!='pass']
print("baseline stable_pass: %d, passing now: %d"%(len(base['stable_pass']),len(base['stable_pass'])-len(bad)))
for t in bad: print("NOT PASSING:",t,res.get(t))
newfail=[t for t,a in res.items() if a=='fail' and t not in base.get('always_fail',[]) and t not in base['stable_pass']]
for t in newfail: print("OTHER FAIL:",t)
sys.exit(1 if bad else 0)
PY
