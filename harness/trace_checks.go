package main

// Checks decided by trace monitors over generated rule sets: C01, C02, C03, C04, C06, C10.

import (
	"fmt"
	"math/rand"
	"strings"
)

type traceSpec struct {
	opts      TraceOpts
	monitors  []func(*Analysis) []Violation
	nontriv   func(a *Analysis, cr *CaseResult) bool // is this run non-trivial for the property
	states    int
	runsEach  int // repetitions of each (program, state) (map order varies between runs)
	maxCycle  func(r *rand.Rand) uint64
	pipelines []string
	listeners func(r *rand.Rand) int
	budgets   bool // C06: enumerate MaxCycle around the natural run length
}

func traceStyle(r *rand.Rand) *Style {
	return &Style{R: r, Spacing: r.Intn(2) == 0, KwCase: r.Intn(2) == 0, LitNot: r.Intn(2) == 0, Redundant: r.Intn(2) == 0, NotParen: true, AmpSafe: true}
}

func runTraceCase(c *Ctx, idx int, sp *traceSpec) *CaseResult {
	cr := &CaseResult{}
	r := c.Rng(idx, 0)
	prog := GenTraceProgram(r, sp.opts)
	pls := sp.pipelines
	if len(pls) == 0 {
		pls = pipelines
	}
	pipeline := pls[r.Intn(len(pls))]
	style := traceStyle(c.Rng(idx, 1))
	if style.Redundant {
		DecorateProgram(prog, c.Rng(idx, 2))
	}
	lib, text, err := BuildVia(pipeline, prog, style)
	if err != nil {
		cr.inconclusive("generated program rejected by the builder or the store/load pipeline (judged by C17/C12): " + trunc(err.Error(), 60))
		if idx < 3 {
			fmt.Printf("note: case %d build failed: %v\n%s\n", idx, err, trunc(text, 600))
		}
		return cr
	}
	cr.inc("pipeline_" + pipeline)
	nstates := sp.states
	if nstates == 0 {
		nstates = 2
	}
	runs := sp.runsEach
	if runs == 0 {
		runs = 1
	}
	for si := 0; si < nstates; si++ {
		sr := c.Rng(idx, 100+si)
		init := GenState(sr)
		mc := uint64(8 + sr.Intn(40))
		if sp.maxCycle != nil {
			mc = sp.maxCycle(sr)
		}
		var budgets []uint64
		if sp.budgets {
			// natural run length from a first run with a generous budget
			kb, err := NewInstance(lib)
			if err != nil {
				cr.inconclusive("instance creation failed (judged by C09): " + trunc(err.Error(), 60))
				continue
			}
			probe := Run(kb, prog, CopyStateLive(init), RunCfg{MaxCycle: 48})
			n := uint64(len(Analyze(prog, probe, RunCfg{MaxCycle: 48}, nil).Firings()))
			if probe.Err == nil && n <= 46 {
				for _, b := range []int64{0, 1, int64(n) - 1, int64(n), int64(n) + 1, int64(n) + 2} {
					if b >= 0 {
						budgets = append(budgets, uint64(b))
					}
				}
			} else {
				budgets = []uint64{0, 1, 2, uint64(3 + sr.Intn(10))}
			}
		} else {
			budgets = []uint64{mc}
		}
		for _, budget := range budgets {
			for rep := 0; rep < runs; rep++ {
				kb, err := NewInstance(lib)
				if err != nil {
					cr.inconclusive("instance creation failed (judged by C09): " + trunc(err.Error(), 60))
					continue
				}
				st := CopyStateLive(init)
				cfg := RunCfg{MaxCycle: budget}
				if sp.listeners != nil {
					cfg.Listeners = sp.listeners(sr)
				}
				res := Run(kb, prog, st, cfg)
				cr.Evals++
				if res.Panic != nil {
					cr.violate(fmt.Sprintf("panic escaped Execute: %v", res.Panic), caseDetail(text, pipeline, init, res, nil))
					continue
				}
				a := Analyze(prog, res, cfg, nil)
				if a.DomainFrom >= 0 {
					cr.inc("runs_leaving_domain")
				}
				cr.addn("cycles", len(a.Cycles))
				cr.addn("firings", len(a.Firings()))
				var vs []Violation
				for _, m := range sp.monitors {
					vs = append(vs, m(a)...)
				}
				if len(vs) > 0 {
					cr.violate(joinViol(vs[:min(3, len(vs))]), caseDetail(text, pipeline, init, res, vs))
					continue
				}
				if sp.nontriv(a, cr) {
					cr.NonTrivial = append(cr.NonTrivial, hashStr(fmt.Sprintf("%s|%d|%d|%d", text, si, budget, 0)))
				}
				if cr.Sample == nil && len(a.Firings()) > 1 {
					cr.Sample = map[string]interface{}{
						"grl": trunc(text, 1500), "pipeline": pipeline, "max_cycle": budget,
						"fired": a.Firings(), "err": fmt.Sprint(res.Err),
						"initial_facts_hash": hashStr(Canon(init)),
						"events_head":        eventsHead(res, 40),
					}
				}
			}
		}
	}
	return cr
}

func eventsHead(res *RunResult, n int) string {
	var l []string
	for i, e := range res.Events {
		if i >= n {
			l = append(l, "…")
			break
		}
		l = append(l, e.String())
	}
	return strings.Join(l, " ")
}

// CopyStateLive deep-copies a state into objects that are handed to the engine (tools are live).
func CopyStateLive(s State) State {
	c := CopyState(s)
	if t, ok := c["T"].(*Tool); ok {
		t.shad = false
	}
	return c
}

func caseDetail(text, pipeline string, init State, res *RunResult, vs []Violation) map[string]interface{} {
	d := map[string]interface{}{
		"grl":           text,
		"pipeline":      pipeline,
		"initial_facts": Canon(init),
		"err":           fmt.Sprint(res.Err),
		"events":        eventsHead(res, 400),
	}
	if vs != nil {
		var l []string
		for _, v := range vs {
			l = append(l, v.String())
		}
		d["violations"] = l
	}
	return d
}

func min(a, b int) int {
	if a < b {
		return a
	}
	return b
}

func tierN(quick, thorough int) func(string) int {
	return func(t string) int {
		if t == "thorough" {
			return thorough
		}
		return quick
	}
}

var depOpts = TraceOpts{MinRules: 2, MaxRules: 8, MinPool: 4, MaxPool: 8, Control: true, Announce: true, Calls: true, Strs: true, Times: true, Depth: 3}

func init() {
	// ---- C01 ----
	register(&Check{
		ID: "C01", Level: "exploration",
		Rule: "random rule sets (2-8 rules over a pool of 4-8 variable paths of every access shape, shared sub-expressions, all assignment forms, Retract/Complete, announced external changes) x 2 fact states through the pipelines one/multi/grb/multi+grb; oracle = reference evaluation from scratch at every BeginCycle; non-trivial = distinct (program, state) runs with >=1 true->false flip of a rule's reference truth between consecutive cycles (a remembered true had to be forgotten)",
		Assume: []string{"condition methods are referentially transparent", "external changes are announced with Forget/Changed in the same action list", "no two fact paths alias one Go storage", "reference interpreter (harness/ref.go) implements the documented semantics"},
		Cases:  tierN(1500, 60000),
		Run: func(c *Ctx, idx int) *CaseResult {
			return runTraceCase(c, idx, &traceSpec{opts: depOpts,
				monitors: []func(*Analysis) []Violation{MonFiresOnlyWhenTrue},
				nontriv: func(a *Analysis, cr *CaseResult) bool {
					tf, _ := a.TruthFlips()
					cr.addn("true_to_false_flips", tf)
					return tf > 0
				}})
		},
	})
	// ---- C02 ----
	register(&Check{
		ID: "C02", Level: "exploration",
		Rule: "same generator as C01 with a bias towards && / || whose unevaluated operand changes; oracle = per cycle every active rule with reference truth true is reported as candidate, and nil return without Complete only at quiescence on the final facts; non-trivial = distinct runs with >=1 false->true flip caused by an earlier action or announcement",
		Assume: []string{"same domain as C01"},
		Cases:  tierN(1500, 60000),
		Run: func(c *Ctx, idx int) *CaseResult {
			return runTraceCase(c, idx, &traceSpec{opts: depOpts,
				monitors: []func(*Analysis) []Violation{MonCandidatesComplete},
				nontriv: func(a *Analysis, cr *CaseResult) bool {
					_, ft := a.TruthFlips()
					cr.addn("false_to_true_flips", ft)
					if a.Res.Err == nil && !a.Complete {
						cr.inc("quiescent_returns_checked")
					}
					return ft > 0
				}})
		},
	})
	// ---- C03 ----
	conf := TraceOpts{MinRules: 3, MaxRules: 12, MinPool: 3, MaxPool: 6, Control: true, NoComplete: false, Calls: false, Strs: false, Depth: 2, ManyTrue: true}
	register(&Check{
		ID: "C03", Level: "exploration",
		Rule: "conflict-set profile: 3-12 rules, many simultaneously true, saliences from {omitted,0,+-1,small,equal groups,MinInt32,MaxInt32,MaxInt32-1} in all literal notations, each (program,state) run 8x in one process (map order varies); oracle = reference conflict set recomputed independently each cycle; non-trivial = runs having a cycle whose reference conflict set has >=2 members with >=2 distinct saliences and whose maximal rule was not the first candidate reported",
		Assume: []string{"same domain as C01", "ties between equal saliences may be broken arbitrarily"},
		Cases:  tierN(700, 20000),
		Run: func(c *Ctx, idx int) *CaseResult {
			return runTraceCase(c, idx, &traceSpec{opts: conf, runsEach: 8, states: 1,
				monitors: []func(*Analysis) []Violation{MonMaxSalience, MonActionsBeforeNextCycle, MonSalienceDeclared},
				nontriv: func(a *Analysis, cr *CaseResult) bool {
					nt := false
					for _, ci := range a.evalJudged() {
						shape := a.ConflictShape(ci)
						if len(shape) >= 2 && shape[0] != shape[len(shape)-1] && len(ci.Execs) > 0 {
							cr.set("conflict_shapes", fmt.Sprint(shape))
							// first candidate reported
							first := ""
							for _, n := range ci.EvalOrder {
								for _, f := range ci.Evals[n] {
									if f && first == "" {
										first = n
									}
								}
							}
							if first != "" && a.Prog.Rule(first) != nil && a.Prog.Rule(first).Sal != shape[len(shape)-1] {
								nt = true
							}
							cr.set("eval_orders", hashStr(strings.Join(ci.EvalOrder, ",")))
						}
					}
					return nt
				}})
		},
	})
	// ---- C04 ----
	amx := TraceOpts{MinRules: 1, MaxRules: 4, MinPool: 6, MaxPool: 12, Calls: true, Strs: true, Times: true, Depth: 2}
	register(&Check{
		ID: "C04", Level: "exploration",
		Rule: "assignment-matrix profile: rules with 1-6 assignments over (addressing form x destination kind x source kind x backend), right-hand sides reading what earlier statements wrote, all five operators, int/uint/float conversions inside the destination range; oracle = deep comparison of the whole fact universe after every firing with an independent replay; non-trivial = distinct runs with a firing that wrote >=2 addressing forms or converted between numeric kinds",
		Assume: []string{"values stay within the destination's range (else the run's tail is inconclusive)", "interface-typed destinations are outside the domain"},
		Cases:  tierN(2500, 100000),
		Run: func(c *Ctx, idx int) *CaseResult {
			return runTraceCase(c, idx, &traceSpec{opts: amx, pipelines: []string{"one", "grb"},
				monitors: []func(*Analysis) []Violation{MonReplayEqual},
				maxCycle: func(r *rand.Rand) uint64 { return uint64(2 + r.Intn(8)) },
				nontriv: func(a *Analysis, cr *CaseResult) bool {
					nt := false
					for _, ci := range a.judged() {
						if len(ci.SetRules) == 0 {
							continue
						}
						rule := a.Prog.Rule(ci.SetRules[0])
						classes := map[string]bool{}
						conv := false
						for _, s := range rule.Then {
							if s.Kind != "assign" {
								continue
							}
							cl := classOf(s.Target)
							classes[cl] = true
							cell := cl + "/" + s.AOp + "/" + s.RHS.Ty.String()
							cr.set("matrix_cells", cell)
							if dst := specOf(s.Target); dst != nil && isNum(dst.Ty) && isNum(s.RHS.Ty) && (dst.Ty != s.RHS.Ty || dst.GK != s.RHS.kindGuess()) {
								conv = true
							}
						}
						if len(classes) >= 2 || conv {
							nt = true
						}
					}
					return nt
				}})
		},
	})
	// ---- C06 ----
	bud := TraceOpts{MinRules: 1, MaxRules: 6, MinPool: 3, MaxPool: 6, Control: true, Calls: false, Strs: false, Depth: 2}
	register(&Check{
		ID: "C06", Level: "exploration",
		Rule: "terminating and non-terminating rule sets; for each (program,state) MaxCycle is enumerated over {0,1,n-1,n,n+1,n+2} with n the natural number of firings (small values when it does not terminate), with 1 or 3 listeners; oracle = protocol automaton over the event list + reference count of needed firings; logical hang detection (BeginCycle MaxCycle+3 aborts); non-trivial = distinct runs that hit the budget boundary exactly (firings == MaxCycle) or ended abnormally; a firing is the ExecuteRuleEntry notification (calls on the data context are not part of the protocol), action-side effects outside the window it opens are violations; the cycle that ends in the cycle-limit error must still report every active rule; an engine call that never returns (goroutine parked on a lock, no recorded progress) is reported instead of hanging the check",
		Assume: []string{"same domain as C01"},
		Cases:  tierN(500, 15000),
		Run: func(c *Ctx, idx int) *CaseResult {
			return runTraceCase(c, idx, &traceSpec{opts: bud, budgets: true, states: 1,
				listeners: func(r *rand.Rand) int { return []int{1, 1, 3}[r.Intn(3)] },
				monitors:  []func(*Analysis) []Violation{MonProtocol},
				nontriv: func(a *Analysis, cr *CaseResult) bool {
					f := uint64(len(a.Firings()))
					if a.Res.Err != nil {
						cr.inc("ended_with_error")
					}
					if a.Cfg.Listeners > 1 {
						cr.inc("multi_listener_runs")
					}
					return f == a.Cfg.MaxCycle || a.Res.Err != nil
				}})
		},
	})
	// ---- C10 ----
	ctl := TraceOpts{MinRules: 2, MaxRules: 7, MinPool: 3, MaxPool: 6, Control: true, Calls: false, Strs: false, Depth: 2, ManyTrue: true}
	register(&Check{
		ID: "C10", Level: "exploration",
		Rule: "control profile: every rule may retract itself, another rule, several, an unknown name, and call Complete() at any position of its action list; oracle = retracted set maintained by replaying the fired rules' own action lists, never read from the engine; non-trivial = distinct runs where a retracted rule's reference condition was true in a later cycle (it would otherwise have been a candidate) or a Complete() was followed by >=1 remaining statement",
		Assume: []string{"same domain as C01", "Function_en: a retracted rule stays out until the next Execute"},
		Cases:  tierN(1500, 60000),
		Run: func(c *Ctx, idx int) *CaseResult {
			return runTraceCase(c, idx, &traceSpec{opts: ctl,
				monitors: []func(*Analysis) []Violation{MonControl},
				nontriv: func(a *Analysis, cr *CaseResult) bool {
					nt := false
					retr := map[string]bool{}
					for _, ci := range a.judged() {
						if ci.Rec != nil {
							for n := range retr {
								if t := ci.Rec.Truth[n]; t.Val && !t.Err {
									nt = true
									cr.inc("retracted_rule_would_have_been_candidate")
								}
							}
						}
						if len(ci.SetRules) > 0 && ci.Ctl != nil && ci.RefErrAt < 0 {
							for n := range ci.Ctl.Retracted {
								if a.Prog.Rule(n) != nil {
									retr[n] = true
								} else {
									cr.inc("retract_unknown_name")
								}
							}
							if ci.Ctl.Complete {
								rule := a.Prog.Rule(ci.SetRules[0])
								for j, s := range rule.Then {
									if s.Kind == "complete" && j < len(rule.Then)-1 {
										nt = true
										cr.inc("complete_followed_by_statements")
									}
								}
							}
						}
					}
					return nt
				}})
		},
	})
}

// MonSalienceDeclared is filled in by run-time inspection of the built entries (C03): the
// salience the engine holds equals the declared literal. It needs the knowledge base, so the
// analysis carries it.
func MonSalienceDeclared(a *Analysis) []Violation {
	var vs []Violation
	for name, sal := range a.Res.EntrySal {
		r := a.Prog.Rule(name)
		if r == nil {
			continue
		}
		if int64(sal) != r.Sal {
			vs = append(vs, Violation{"SalienceDeclared", 0, name, fmt.Sprintf("rule entry holds salience %d, declared %d", sal, r.Sal)})
		}
	}
	return vs
}

func specOf(p *Path) *VarSpec {
	t := PathText(p)
	for i := range catalog {
		if catalog[i].Text == t {
			return &catalog[i]
		}
	}
	return nil
}

func classOf(p *Path) string {
	if s := specOf(p); s != nil {
		return s.Class
	}
	return "other"
}
