package main

// C14, deterministic part: every operator applied to operands of mismatching families (and to a
// nil pointer / nil interface), in the positions where "false" and "failed" differ: under a
// negation, compared with false, as the left side of ||, and as the right-hand side of an action.
// The reference decides which combinations fail; only those are judged.

import (
	"fmt"
	"reflect"
)

type kindOperand struct {
	Name string
	Mk   func() *Expr
}

var c14Lefts = []kindOperand{
	{"int field", func() *Expr { return VarE(P("F.A"), TInt, reflect.Int64) }},
	{"int literal", func() *Expr { return LitI(5) }},
	{"int8 field", func() *Expr { return VarE(P("F.I8"), TInt, reflect.Int8) }},
	{"uint field", func() *Expr { return VarE(P("F.U8"), TUint, reflect.Uint8) }},
	{"float field", func() *Expr { return VarE(P("F.X"), TFloat, reflect.Float64) }},
	{"float literal", func() *Expr { return LitF(1.5) }},
	{"string field", func() *Expr { return VarE(P("F.S1"), TStr, reflect.String) }},
	{"bool field", func() *Expr { return VarE(P("F.T"), TBool, reflect.Bool) }},
	{"time field", func() *Expr { return VarE(P("F.Tm"), TTime, reflect.Struct) }},
}

var c14Rights = append(append([]kindOperand(nil), c14Lefts...),
	kindOperand{"string literal", func() *Expr { return LitS("five") }},
	kindOperand{"bool literal", func() *Expr { return LitB(true) }},
	kindOperand{"nil pointer to number", func() *Expr { e := VarE(P("F.PN"), TInt, reflect.Int64); e.GK = int(reflect.Ptr); return e }},
	kindOperand{"JSON member of another kind", func() *Expr { return VarE(P("J.name"), TStr, reflect.String) }},
)

var c14KindOps = []string{"==", "!=", "<", "<=", ">", ">=", "+", "-", "*", "/", "%", "&", "|", "&&", "||"}

type kindCase struct {
	L, R kindOperand
	Op   string
	// Whole, when set, is a complete failing application (no operator table entry)
	Whole func() *Expr
	Name  string
}

var c14KindCases = func() []kindCase {
	var out []kindCase
	for _, l := range c14Lefts {
		for _, r := range c14Rights {
			for _, op := range c14KindOps {
				out = append(out, kindCase{L: l, R: r, Op: op})
			}
		}
	}
	// appended later (indices above stay what they were): applications that fail for other reasons
	// than the operand families - a pattern that does not compile, a selector of the wrong kind
	whole := func(name string, mk func() *Expr) { out = append(out, kindCase{Whole: mk, Name: name}) }
	s1 := func() *Expr { return VarE(P("F.S1"), TStr, reflect.String) }
	for _, pat := range []string{"(", "[a-", "a{2,1}", "(?P<n", "\\", "*a"} {
		pat := pat
		whole("MatchString with the invalid pattern "+pat, func() *Expr { return CallE(s1(), "MatchString", TBool, reflect.Bool, LitS(pat)) })
		whole("MatchString on a literal with the invalid pattern "+pat, func() *Expr { return CallE(LitS("abc"), "MatchString", TBool, reflect.Bool, LitS(pat)) })
	}
	whole("string-keyed map read with the number of a key's only character", func() *Expr {
		return Bin("==", TBool, VarE(P("F.MP", 97, ".X"), TInt, reflect.Int64), VarE(P("F.MP", 97, ".X"), TInt, reflect.Int64))
	})
	whole("string-keyed map of numbers read with an integer selector", func() *Expr {
		return Bin(">=", TBool, VarE(P("F.MS", 107), TStr, reflect.String), LitS(""))
	})
	whole("integer-keyed map read with a string selector", func() *Expr {
		return Bin("==", TBool, VarE(P("F.MI", "1"), TInt, reflect.Int64), VarE(P("F.MI", "1"), TInt, reflect.Int64))
	})
	whole("slice read with a string selector", func() *Expr {
		return Bin("==", TBool, VarE(P("F.Arr", "0"), TInt, reflect.Int64), VarE(P("F.Arr", "0"), TInt, reflect.Int64))
	})
	return out
}()

// c14KindProgram builds the rule set of one (left, operator, right) combination. ok=false when
// the reference does not call this application a failure on st (well-typed, or unspecified).
func c14KindProgram(k kindCase, st State, compound bool) (*Program, bool) {
	app := func() *Expr {
		if k.Whole != nil {
			return k.Whole()
		}
		ty := TBool
		switch k.Op {
		case "+", "-", "*", "/", "%", "&", "|":
			ty = TInt
		}
		return Bin(k.Op, ty, k.L.Mk(), k.R.Mk())
	}
	if _, err := ref.Eval(app(), CopyState(st)); err == nil || isDomainErr(err) {
		return nil, false
	}
	boolish := app().Ty == TBool
	p := &Program{}
	// the witness must fire undisturbed
	p.Rules = append(p.Rules, &Rule{Name: "W", Desc: "witness", HasSal: true, Sal: 10, When: LitB(true),
		Then: []*Stmt{Assign(P("F.B"), "=", LitI(7)), {Kind: "retract", Name: "W"}}})
	then := func(n string) []*Stmt {
		return []*Stmt{Assign(P("F.C"), "=", LitI(1)), {Kind: "retract", Name: n}}
	}
	if boolish {
		p.Rules = append(p.Rules,
			&Rule{Name: "K1", Desc: "under a negation", HasSal: true, Sal: 5, When: Not(app()), Then: then("K1")},
			&Rule{Name: "K2", Desc: "compared with false", HasSal: true, Sal: 5, When: Bin("==", TBool, app(), LitB(false)), Then: then("K2")},
			&Rule{Name: "K3", Desc: "left of ||", HasSal: true, Sal: 5, When: Bin("||", TBool, app(), VarE(P("F.T"), TBool, reflect.Bool)), Then: then("K3")},
			&Rule{Name: "K4", Desc: "bare", HasSal: true, Sal: 5, When: app(), Then: then("K4")})
	} else {
		p.Rules = append(p.Rules,
			&Rule{Name: "K1", Desc: "inside a comparison", HasSal: true, Sal: 5, When: Bin("!=", TBool, app(), LitI(424242)), Then: then("K1")},
			&Rule{Name: "K2", Desc: "inside a negated comparison", HasSal: true, Sal: 5, When: Not(Bin("==", TBool, app(), LitI(424242))), Then: then("K2")})
	}
	// the same application as the right-hand side of an action: Execute must return an error naming A
	failing := Assign(P("F.Any"), "=", app())
	if compound {
		// ... or as a compound assignment  L op= R
		if k.Whole != nil {
			return nil, false
		}
		l := k.L.Mk()
		if l.Op != "var" || (k.Op != "+" && k.Op != "-" && k.Op != "*" && k.Op != "/") {
			return nil, false
		}
		failing = Assign(l.Path, k.Op+"=", k.R.Mk())
	}
	p.Rules = append(p.Rules, &Rule{Name: "A", Desc: "in an action", HasSal: true, Sal: 1, When: LitB(true),
		Then: []*Stmt{Assign(P("F.AB"), "=", LitI(3)), failing, Assign(P("F.E"), "=", LitI(4)), {Kind: "retract", Name: "A"}}})
	return p, true
}

func runC14KindCase(c *Ctx, t int, cr *CaseResult) *CaseResult {
	k := c14KindCases[t]
	init := GenState(c.Rng(t, 300))
	f := init["F"].(*Fact)
	f.PN = nil
	f.T = true
	for _, compound := range []bool{false, true} {
		c14KindRun(c, k, init, compound, cr)
	}
	cr.set("kind_mismatch_applications", k.describe())
	return cr
}

func c14KindRun(c *Ctx, k kindCase, init State, compound bool, cr *CaseResult) {
	prog, ok := c14KindProgram(k, init, compound)
	if !ok {
		return
	}
	text := PlainStyle.PrintProgram(prog)
	lib, err := BuildLib(text)
	if err != nil {
		cr.inconclusive("kind-mismatch program rejected by the builder: " + trunc(err.Error(), 60))
		return
	}
	for _, retErr := range []bool{false, true} {
		kb, err := NewInstance(lib)
		if err != nil {
			cr.inconclusive("instance creation failed (judged by C09)")
			continue
		}
		cfg := RunCfg{MaxCycle: 12, RetErr: retErr}
		res := Run(kb, prog, CopyStateLive(init), cfg)
		cr.Evals++
		a := Analyze(prog, res, cfg, nil)
		if a.DomainFrom >= 0 {
			continue
		}
		vs := MonFaultContainment(a, nil)
		vs = append(vs, MonReplayEqual(a)...)
		vs = append(vs, MonCandidatesComplete(a)...)
		vs = append(vs, MonFiresOnlyWhenTrue(a)...)
		if len(vs) > 0 {
			d := caseDetail(text, "one", init, res, vs)
			d["application"] = k.describe()
			cr.violate(fmt.Sprintf("%s (ReturnErrOnFailedRuleEvaluation=%v): %s", k.describe(), retErr, joinViol(vs[:min(3, len(vs))])), d)
			continue
		}
		cr.inc("kind_mismatch_runs")
		if compound {
			cr.inc("kind_mismatch_compound_assignment_runs")
		}
		cr.NonTrivial = append(cr.NonTrivial, fmt.Sprintf("kind|%s|%v|%v", k.describe(), retErr, compound))
	}
}

func (k kindCase) describe() string {
	if k.Whole != nil {
		return k.Name
	}
	return fmt.Sprintf("%s %s %s", k.L.Name, k.Op, k.R.Name)
}
