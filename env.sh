# sourced by every script in /verif: offline Go environment
export GOFLAGS=-mod=mod GOPROXY=off GOSUMDB=off GOTOOLCHAIN=local GONOSUMDB=* GONOSUMCHECK=1 GOFLAGS="-mod=mod"
VERIF_DIR="$(cd "$(dirname "${BASH_SOURCE[0]}")" && pwd)"
export VERIF_DIR
GO_1244=/root/go/pkg/mod/golang.org/toolchain@v0.0.1-go1.24.4.linux-amd64/bin
if [ -x "$GO_1244/go" ]; then
  export PATH="$GO_1244:$PATH"
elif [ -x /opt/veriftools/go1.26.8/bin/go ]; then
  export PATH="/opt/veriftools/go1.26.8/bin:$PATH"
fi
export VERIF_REPO="${VERIF_REPO:-/repo}"
export GOCACHE="${GOCACHE:-/root/.cache/go-build}"
