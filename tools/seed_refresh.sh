#!/bin/bash
# Re-runs the checks against every kept seeded change (no suite) and refreshes seeded/<id>/meta.json.
# usage: tools/seed_refresh.sh [parallelism]   (each change: its own check plus every check that caught it before)
cd "$(dirname "$0")/.."
P=${1:-1}
for d in seeded/*/; do
  id=$(basename "$d")
  prop=${id%%-*}
  grep -q '"status": "obsolete' "$d/meta.json" 2>/dev/null && continue
  extra=$(python3 -c "
import json,sys
m=json.load(open('$d/meta.json'))
s=set(m.get('caught_by',[]))|{'$prop'}
print(' '.join(sorted(s)))")
  echo "$d $id $prop $extra"
done | xargs -P "$P" -L 1 sh -c 'python3 tools/seed_eval.py "$@" --nosuite 2>&1 | grep -E "KEPT|REJECT" | cut -c1-200' sh
