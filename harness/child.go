package main

func childMain(args []string) int { return 2 }
