package main

// C19: comparison operators are mutually consistent across operand kinds.
// Exhaustive over a finite boundary-rich domain, called directly on pkg.Evaluate*, plus a
// seeded sample pushed through GRL conditions over typed fact fields.

import (
	"fmt"
	"math"
	"math/big"
	"reflect"
	"strings"
	"time"

	"github.com/hyperjumptech/grule-rule-engine/pkg"
)

type cmpOperand struct {
	Desc string
	V    reflect.Value
	Rat  *big.Rat  // exact numeric value (numbers)
	Str  string    // strings
	B    bool      // booleans
	T    time.Time // times
	Fam  string    // num str bool time
	Kind reflect.Kind
	// exactly representable as float64 (needed when the other side is a float)
	F64Exact bool
	IsFloat  bool
	Wrap     string
}

var numKinds = []reflect.Kind{reflect.Int, reflect.Int8, reflect.Int16, reflect.Int32, reflect.Int64,
	reflect.Uint, reflect.Uint8, reflect.Uint16, reflect.Uint32, reflect.Uint64, reflect.Float32, reflect.Float64}

func numDomain() []*big.Rat {
	var d []*big.Rat
	add := func(s string) {
		r, ok := new(big.Rat).SetString(s)
		if !ok {
			panic(s)
		}
		d = append(d, r)
	}
	for _, s := range []string{"0", "1", "-1", "1/2", "-1/2", "5/4", "-5/4", "2", "-2", "100",
		"127", "128", "-128", "-129", "255", "256", "32767", "32768", "-32768", "65535", "65536",
		"2147483647", "2147483648", "-2147483648", "4294967295", "4294967296",
		"9007199254740991", "9007199254740992", "9007199254740993", "-9007199254740993",
		"9223372036854775807", "-9223372036854775808"} {
		add(s)
	}
	// values that differ by less than float32 precision: 0.1 as float64 vs 0.1 rounded to float32,
	// 2^24 vs 2^24+1 (the latter is not a float32)
	d = append(d, new(big.Rat).SetFloat64(0.1), new(big.Rat).SetFloat64(float64(float32(0.1))),
		new(big.Rat).SetInt64(16777216), new(big.Rat).SetInt64(16777217))
	// neighbouring doubles (one unit in the last place apart): no tolerance may make them equal
	d = append(d, new(big.Rat).SetFloat64(math.Nextafter(1, 2)), new(big.Rat).SetFloat64(0.3), new(big.Rat).SetFloat64(0.1+0.2),
		new(big.Rat).SetFloat64(math.Nextafter(-1, -2)), new(big.Rat).SetFloat64(math.Nextafter(1e15, 2e15)), new(big.Rat).SetFloat64(1e15))
	return d
}

// mkNum builds a value of kind k holding exactly r, if representable.
func mkNum(k reflect.Kind, r *big.Rat) (reflect.Value, bool) {
	t := kindType(k)
	v := reflect.New(t).Elem()
	switch {
	case k >= reflect.Int && k <= reflect.Int64:
		if !r.IsInt() || !r.Num().IsInt64() || v.OverflowInt(r.Num().Int64()) {
			return v, false
		}
		v.SetInt(r.Num().Int64())
	case k >= reflect.Uint && k <= reflect.Uint64:
		if !r.IsInt() || r.Sign() < 0 || !r.Num().IsInt64() || v.OverflowUint(uint64(r.Num().Int64())) {
			return v, false // unsigned values beyond MaxInt64 are outside the property's domain
		}
		v.SetUint(uint64(r.Num().Int64()))
	default:
		f, exact := r.Float64()
		if !exact {
			return v, false
		}
		if k == reflect.Float32 && float64(float32(f)) != f {
			return v, false
		}
		v.SetFloat(f)
	}
	return v, true
}

func wrapValue(v reflect.Value, wrap string) reflect.Value {
	switch wrap {
	case "pointer":
		p := reflect.New(v.Type())
		p.Elem().Set(v)
		return p
	case "interface":
		var i interface{} = v.Interface()
		return reflect.ValueOf(&i).Elem()
	case "pointer-to-pointer":
		p := reflect.New(v.Type())
		p.Elem().Set(v)
		pp := reflect.New(p.Type())
		pp.Elem().Set(p)
		return pp
	case "pointer-to-interface":
		var i interface{} = v.Interface()
		return reflect.ValueOf(&i)
	case "interface-holding-pointer":
		p := reflect.New(v.Type())
		p.Elem().Set(v)
		var i interface{} = p.Interface()
		return reflect.ValueOf(&i).Elem()
	}
	return v
}

var wraps = []string{"plain", "pointer", "interface", "pointer-to-pointer", "pointer-to-interface", "interface-holding-pointer"}

func numOperands() []cmpOperand {
	var ops []cmpOperand
	for _, k := range numKinds {
		for _, r := range numDomain() {
			v, ok := mkNum(k, r)
			if !ok {
				continue
			}
			_, exact := r.Float64()
			for _, w := range wraps {
				ops = append(ops, cmpOperand{Desc: fmt.Sprintf("%s(%s)/%s", k, r.RatString(), w), V: wrapValue(v, w), Rat: r, Fam: "num", Kind: k,
					F64Exact: exact, IsFloat: k == reflect.Float32 || k == reflect.Float64, Wrap: w})
			}
		}
	}
	return ops
}

type cmpFn func(a, b reflect.Value) (reflect.Value, error)

var cmpFns = map[string]cmpFn{"<": pkg.EvaluateLesserThan, "==": pkg.EvaluateEqual, ">": pkg.EvaluateGreaterThan,
	"<=": pkg.EvaluateLesserThanEqual, ">=": pkg.EvaluateGreaterThanEqual, "!=": pkg.EvaluateNotEqual}

func callCmp(op string, a, b reflect.Value) (res bool, err error) {
	defer func() {
		if p := recover(); p != nil {
			err = fmt.Errorf("panic: %v", p)
		}
	}()
	v, e := cmpFns[op](a, b)
	if e != nil {
		return false, e
	}
	if v.Kind() != reflect.Bool {
		return false, fmt.Errorf("non-boolean result %v", v)
	}
	return v.Bool(), nil
}

// orderUnknown: the pair is judged for the mutual consistency of the six operators only (an
// integer beyond 2^53 next to a float: the engine may round, but all operators must round alike).
const orderUnknown = 2

// checkPair verifies every relation for the ordered pair (a, b) whose exact order is c (-1,0,1).
func checkPair(a, b cmpOperand, c int, orderedFamily bool) []string {
	var bad []string
	r := map[string]bool{}
	ops := []string{"<", "==", ">", "<=", ">=", "!="}
	if !orderedFamily {
		ops = []string{"==", "!="}
	}
	for _, op := range ops {
		v, err := callCmp(op, a.V, b.V)
		if err != nil {
			bad = append(bad, fmt.Sprintf("%s %s %s raises %v", a.Desc, op, b.Desc, err))
			return bad
		}
		r[op] = v
	}
	if r["!="] == r["=="] {
		bad = append(bad, fmt.Sprintf("%s vs %s: != is %v and == is %v", a.Desc, b.Desc, r["!="], r["=="]))
	}
	if c != orderUnknown && r["=="] != (c == 0) {
		bad = append(bad, fmt.Sprintf("%s == %s is %v although the values are %s", a.Desc, b.Desc, r["=="], map[bool]string{true: "equal", false: "different"}[c == 0]))
	}
	if orderedFamily {
		n := 0
		for _, op := range []string{"<", "==", ">"} {
			if r[op] {
				n++
			}
		}
		if n != 1 {
			bad = append(bad, fmt.Sprintf("%s vs %s: not exactly one of <, ==, > holds (<:%v ==:%v >:%v)", a.Desc, b.Desc, r["<"], r["=="], r[">"]))
		}
		if r["<="] != (r["<"] || r["=="]) {
			bad = append(bad, fmt.Sprintf("%s vs %s: <= is %v but < is %v and == is %v", a.Desc, b.Desc, r["<="], r["<"], r["=="]))
		}
		if r[">="] != (r[">"] || r["=="]) {
			bad = append(bad, fmt.Sprintf("%s vs %s: >= is %v but > is %v and == is %v", a.Desc, b.Desc, r[">="], r[">"], r["=="]))
		}
		if c != orderUnknown && (r["<"] != (c < 0) || r[">"] != (c > 0)) {
			bad = append(bad, fmt.Sprintf("%s vs %s: the outcome (<:%v >:%v) does not follow the values (exact order %d)", a.Desc, b.Desc, r["<"], r[">"], c))
		}
		// mirror
		for op, mop := range map[string]string{"<": ">", ">": "<", "<=": ">=", ">=": "<=", "==": "==", "!=": "!="} {
			mv, err := callCmp(mop, b.V, a.V)
			if err != nil {
				bad = append(bad, fmt.Sprintf("%s %s %s raises %v", b.Desc, mop, a.Desc, err))
				break
			}
			if mv != r[op] {
				bad = append(bad, fmt.Sprintf("%s %s %s is %v but the mirrored %s %s %s is %v", a.Desc, op, b.Desc, r[op], b.Desc, mop, a.Desc, mv))
			}
		}
	}
	return bad
}

func runC19Direct(c *Ctx) (pairs, crossKind int, bad []string, samples []interface{}) {
	// numbers
	nums := numOperands()
	for i, a := range nums {
		for _, b := range nums {
			// when a float takes part, the integer side must be exactly representable as float64
			if (a.IsFloat || b.IsFloat) && (!a.F64Exact || !b.F64Exact) {
				continue
			}
			pairs++
			if a.Kind != b.Kind || a.Wrap != b.Wrap {
				crossKind++
			}
			if v := checkPair(a, b, a.Rat.Cmp(b.Rat), true); len(v) > 0 {
				bad = append(bad, v...)
				if len(bad) > 50 {
					return
				}
			}
		}
		if i == 0 {
			samples = append(samples, map[string]string{"a": a.Desc, "b": nums[len(nums)-1].Desc, "operators": "< == > <= >= != and mirrors"})
		}
	}
	// negative zero: equal to zero under every operator, whatever its bits
	{
		nz := math.Copysign(0, -1)
		var zs []cmpOperand
		for _, w := range wraps {
			zs = append(zs,
				cmpOperand{Desc: "float64(-0)/" + w, V: wrapValue(reflect.ValueOf(nz), w), Rat: new(big.Rat), Fam: "num", Kind: reflect.Float64, F64Exact: true, IsFloat: true, Wrap: w},
				cmpOperand{Desc: "float32(-0)/" + w, V: wrapValue(reflect.ValueOf(float32(nz)), w), Rat: new(big.Rat), Fam: "num", Kind: reflect.Float32, F64Exact: true, IsFloat: true, Wrap: w})
		}
		for _, a := range zs {
			for _, b := range nums {
				if !b.F64Exact {
					continue
				}
				pairs += 2
				crossKind += 2
				bad = append(bad, checkPair(a, b, a.Rat.Cmp(b.Rat), true)...)
				bad = append(bad, checkPair(b, a, b.Rat.Cmp(a.Rat), true)...)
				if len(bad) > 50 {
					return
				}
			}
			for _, b := range zs {
				pairs++
				bad = append(bad, checkPair(a, b, 0, true)...)
			}
		}
	}
	// integers that float64 can not hold exactly, next to floats: consistency of the six
	// operators and of the mirrored comparison only
	{
		var ints, floats []cmpOperand
		for _, s := range []string{"9007199254740993", "-9007199254740993", "1699999999999999999", "-1699999999999999999",
			"9223372036854775807", "-9223372036854775807", "4611686018427387905", "9007199254740995"} {
			r, _ := new(big.Rat).SetString(s)
			for _, k := range []reflect.Kind{reflect.Int64, reflect.Int, reflect.Uint64} {
				if v, ok := mkNum(k, r); ok {
					for _, w := range []string{"plain", "pointer", "interface"} {
						ints = append(ints, cmpOperand{Desc: fmt.Sprintf("%s(%s)/%s", k, s, w), V: wrapValue(v, w), Rat: r, Fam: "num", Kind: k, Wrap: w})
					}
				}
			}
		}
		for _, f := range []float64{9007199254740992, 9007199254740994, -9007199254740992, 1.7e18, -1.7e18, 9223372036854775808, -9223372036854775808,
			4611686018427387904, 9007199254740996, 1.8446744073709552e19, 0.5, -1e30, 1e30} {
			for _, w := range []string{"plain", "interface"} {
				floats = append(floats, cmpOperand{Desc: fmt.Sprintf("float64(%v)/%s", f, w), V: wrapValue(reflect.ValueOf(f), w), Fam: "num", Kind: reflect.Float64, IsFloat: true, Wrap: w})
			}
		}
		for _, a := range ints {
			for _, b := range floats {
				pairs += 2
				crossKind += 2
				bad = append(bad, checkPair(a, b, orderUnknown, true)...)
				bad = append(bad, checkPair(b, a, orderUnknown, true)...)
				if len(bad) > 50 {
					return
				}
			}
		}
	}
	// strings
	strs := []string{"", "a", "ab", "b", "A", "é", "z", "a\x00", "aa", "Z", " a", "ab\xff",
		"10", "9", "07", "7", "1e1", "-1", "7.0", "0x10", "true", "false"} // texts that look like numbers are still texts
	var sops []cmpOperand
	for _, s := range strs {
		for _, w := range wraps {
			sops = append(sops, cmpOperand{Desc: fmt.Sprintf("string(%q)/%s", s, w), V: wrapValue(reflect.ValueOf(s), w), Str: s, Fam: "str", Wrap: w})
		}
	}
	for _, a := range sops {
		for _, b := range sops {
			pairs++
			if a.Wrap != b.Wrap {
				crossKind++
			}
			bad = append(bad, checkPair(a, b, strings.Compare(a.Str, b.Str), true)...)
		}
	}
	// booleans
	var bops []cmpOperand
	for _, v := range []bool{false, true} {
		for _, w := range wraps {
			bops = append(bops, cmpOperand{Desc: fmt.Sprintf("bool(%v)/%s", v, w), V: wrapValue(reflect.ValueOf(v), w), B: v, Fam: "bool", Wrap: w})
		}
	}
	for _, a := range bops {
		for _, b := range bops {
			pairs++
			if a.Wrap != b.Wrap {
				crossKind++
			}
			cmpv := 1
			if a.B == b.B {
				cmpv = 0
			}
			bad = append(bad, checkPair(a, b, cmpv, false)...)
		}
	}
	// times
	base := time.Date(2020, 6, 15, 12, 0, 0, 500, time.UTC)
	now := time.Now()
	var tops []cmpOperand
	addT := func(desc string, t time.Time) {
		for _, w := range wraps {
			tops = append(tops, cmpOperand{Desc: "time(" + desc + ")/" + w, V: wrapValue(reflect.ValueOf(t), w), T: t, Fam: "time", Wrap: w})
		}
	}
	addT("base UTC", base)
	addT("base +01:00", base.In(time.FixedZone("plus1", 3600)))
	addT("base -09:30", base.In(time.FixedZone("minus930", -9*3600-1800)))
	addT("base Local", base.In(time.Local))
	addT("base+1ns", base.Add(1))
	addT("base-1ns", base.Add(-1))
	addT("zero", time.Time{})
	addT("now (monotonic reading)", now)
	addT("now stripped", now.Round(0))
	addT("now stripped +01:00", now.Round(0).In(time.FixedZone("plus1", 3600)))
	addT("unix0", time.Unix(0, 0))
	addT("9999-12-31", time.Date(9999, 12, 31, 23, 59, 59, 0, time.UTC))
	addT("2300-01-01", time.Date(2300, 1, 1, 0, 0, 0, 0, time.UTC))
	addT("1600-01-01", time.Date(1600, 1, 1, 0, 0, 0, 0, time.UTC))
	addT("0001-01-02", time.Date(1, 1, 2, 0, 0, 0, 0, time.UTC))
	for _, a := range tops {
		for _, b := range tops {
			pairs++
			if a.T.Location() != b.T.Location() || a.Wrap != b.Wrap {
				crossKind++
			}
			cv := 0
			switch {
			case a.T.Before(b.T):
				cv = -1
			case a.T.After(b.T):
				cv = 1
			}
			bad = append(bad, checkPair(a, b, cv, true)...)
		}
	}
	samples = append(samples, map[string]string{"a": tops[0].Desc, "b": tops[3].Desc, "expected": "== (same instant, different location)"})
	return
}

// GRL part: a seeded sample of numeric pairs through conditions over typed fact fields.
var c19Fields = map[reflect.Kind]string{reflect.Int: "I", reflect.Int8: "I8", reflect.Int16: "I16", reflect.Int32: "I32", reflect.Int64: "A",
	reflect.Uint: "U", reflect.Uint8: "U8", reflect.Uint16: "U16", reflect.Uint32: "U32", reflect.Uint64: "U64", reflect.Float32: "F32", reflect.Float64: "X"}

func setField(f *Fact, k reflect.Kind, r *big.Rat) bool {
	v, ok := mkNum(k, r)
	if !ok {
		return false
	}
	reflect.ValueOf(f).Elem().FieldByName(c19Fields[k]).Set(v)
	return true
}

// runC19Other pushes string and time pairs through GRL conditions.
func runC19Other(c *Ctx, idx int, cr *CaseResult) *CaseResult {
	r := c.Rng(idx, 0)
	st := GenState(c.Rng(idx, 1))
	f, g := st["F"].(*Fact), st["G"].(*Fact)
	var cv int
	left, right := "F.S1", "G.S1"
	desc := ""
	if r.Intn(2) == 0 {
		strs := []string{"", "a", "ab", "b", "A", "é", "z", "a\x00", "aa", "Z", " a", "ab\xff",
		"10", "9", "07", "7", "1e1", "-1", "7.0", "0x10", "true", "false"} // texts that look like numbers are still texts
		f.S1, g.S1 = strs[r.Intn(len(strs))], strs[r.Intn(len(strs))]
		cv = strings.Compare(f.S1, g.S1)
		desc = fmt.Sprintf("string %q vs %q", f.S1, g.S1)
	} else {
		base := time.Date(2020, 6, 15, 12, 0, 0, 500, time.UTC)
		now := time.Now()
		ts := []time.Time{base, base.In(time.FixedZone("plus1", 3600)), base.In(time.FixedZone("minus930", -9*3600-1800)), base.In(time.Local),
			base.Add(1), base.Add(-1), {}, now, now.Round(0), now.Round(0).In(time.FixedZone("plus1", 3600)), time.Unix(0, 0)}
		f.Tm, g.Tm2 = ts[r.Intn(len(ts))], ts[r.Intn(len(ts))]
		left, right = "F.Tm", "G.Tm2"
		switch {
		case f.Tm.Before(g.Tm2):
			cv = -1
		case f.Tm.After(g.Tm2):
			cv = 1
		}
		desc = fmt.Sprintf("time %s vs %s", f.Tm, g.Tm2)
	}
	var text strings.Builder
	text.WriteString(c19Rules(left, right))
	lib, err := BuildLib(text.String())
	if err != nil {
		cr.inconclusive("rule text rejected by the builder (judged by C17)")
		return cr
	}
	kbi, err := NewInstance(lib)
	if err != nil {
		cr.inconclusive("instance creation failed (judged by C09)")
		return cr
	}
	res := Run(kbi, nil, st, RunCfg{Fetch: true, NoSnap: true})
	cr.Evals++
	if res.Err != nil || res.Panic != nil {
		cr.violate(fmt.Sprintf("comparison through GRL fails (%s): %v %v", desc, res.Err, res.Panic), map[string]interface{}{"grl": text.String()})
		return cr
	}
	if bad := c19Judge(res.Matched, cv, left, right); bad != "" {
		cr.violate("GRL: "+bad+" ("+desc+")", map[string]interface{}{"grl": text.String()})
		return cr
	}
	cr.NonTrivial = append(cr.NonTrivial, desc)
	cr.set("grl_kind_pairs", left+","+right)
	return cr
}

func runC19Case(c *Ctx, idx int) *CaseResult {
	cr := &CaseResult{}
	if idx%8 == 7 {
		return runC19Other(c, idx, cr)
	}
	r := c.Rng(idx, 0)
	dom := numDomain()
	ka, kb := numKinds[r.Intn(len(numKinds))], numKinds[r.Intn(len(numKinds))]
	ra, rb := dom[r.Intn(len(dom))], dom[r.Intn(len(dom))]
	// every sixth case: the same wrapping on both sides, equal values half of the time
	both := ""
	if idx%6 == 0 {
		both = []string{"pointer", "interface"}[r.Intn(2)]
		if both == "pointer" {
			ka, kb = reflect.Int64, reflect.Int64
		}
		if r.Intn(2) == 0 {
			rb = ra
		}
	}
	st := GenState(c.Rng(idx, 1))
	f, g := st["F"].(*Fact), st["G"].(*Fact)
	if !setField(f, ka, ra) || !setField(g, kb, rb) {
		return cr
	}
	_, ea := ra.Float64()
	_, eb := rb.Float64()
	fa, fb := ka == reflect.Float32 || ka == reflect.Float64, kb == reflect.Float32 || kb == reflect.Float64
	if (fa || fb) && (!ea || !eb) {
		return cr
	}
	left, right := "F."+c19Fields[ka], "G."+c19Fields[kb]
	// sometimes through the pointer / interface fields - on one side or on both (two pointers
	// to equal values are different addresses; two interfaces may hold different kinds)
	wl, wr := r.Intn(3), r.Intn(3)
	switch both {
	case "pointer":
		wl, wr = 0, 0
	case "interface":
		wl, wr = 1, 1
	}
	switch wl {
	case 0:
		if ka == reflect.Int64 {
			x := f.A
			f.PN = &x
			left = "F.PN"
		}
	case 1:
		f.Any = reflect.ValueOf(f).Elem().FieldByName(c19Fields[ka]).Interface()
		left = "F.Any"
	}
	switch wr {
	case 0:
		if kb == reflect.Int64 {
			x := g.A
			g.PN = &x
			right = "G.PN"
		}
	case 1:
		g.Any = reflect.ValueOf(g).Elem().FieldByName(c19Fields[kb]).Interface()
		right = "G.Any"
	}
	cv := ra.Cmp(rb)
	var text strings.Builder
	text.WriteString(c19Rules(left, right))
	lib, err := BuildLib(text.String())
	if err != nil {
		cr.inconclusive("rule text rejected by the builder (judged by C17)")
		return cr
	}
	kbi, err := NewInstance(lib)
	if err != nil {
		cr.inconclusive("instance creation failed (judged by C09)")
		return cr
	}
	res := Run(kbi, nil, st, RunCfg{Fetch: true, NoSnap: true})
	cr.Evals++
	if res.Err != nil || res.Panic != nil {
		cr.violate(fmt.Sprintf("comparison of %s(%s) with %s(%s) through GRL fails: %v %v", ka, ra.RatString(), kb, rb.RatString(), res.Err, res.Panic), map[string]interface{}{"grl": text.String()})
		return cr
	}
	if bad := c19Judge(res.Matched, cv, left, right); bad != "" {
		cr.violate(fmt.Sprintf("GRL: %s with %s = %s(%s), %s = %s(%s)", bad, left, ka, ra.RatString(), right, kb, rb.RatString()), map[string]interface{}{"grl": text.String()})
		return cr
	}
	if ka != kb {
		cr.NonTrivial = append(cr.NonTrivial, fmt.Sprintf("%s|%s|%s|%s|%s|%s", ka, ra.RatString(), kb, rb.RatString(), left, right))
	}
	cr.set("grl_kind_pairs", fmt.Sprintf("%s,%s", ka, kb))
	cr.Sample = map[string]interface{}{"left": fmt.Sprintf("%s = %s(%s)", left, ka, ra.RatString()), "right": fmt.Sprintf("%s = %s(%s)", right, kb, rb.RatString()), "grl": text.String(), "matched_rules": res.Matched}
	return cr
}

func init() {
	register(&Check{
		ID: "C19", Level: "exploration",
		Rule: "direct part, exhaustive over a finite domain: every ordered pair of the 12 numeric kinds x {plain, behind pointer, in interface, pointer to pointer, pointer to interface, interface holding a pointer} x 36 boundary values (0, +-1, +-0.5, +-1.25, every width limit <= MaxInt64, 2^24, 2^24+1, 0.1 as float64 and as float32, 2^53-1, 2^53, 2^53+1, MaxInt64, MinInt64) that are exactly representable in both kinds (float pairs: exactly representable as float64), strings (empty, prefixes, case, non-ASCII, NUL, invalid UTF-8), booleans (== and != only), times (same instant in 4 locations, +-1ns, zero, with/without monotonic reading, years 1, 1600, 2300, 9999), each with all 6 operators, the mirrored call and the exact mathematical order as value-determinism oracle; GRL part: seeded sample of numeric kind/value pairs through conditions over typed fact fields (also via *int64 and interface{} fields), plus string and time pairs (every eighth case); non-trivial = pairs of different kinds / wrappings / locations; negative zero in all wrappings; integers beyond 2^53 next to floats judged for mutual consistency only; the GRL part puts L op R, the mirrored R mop L and the swapped R op L into ONE knowledge base, every sixth case with the same wrapping (two pointers / two interfaces) on both sides",
		Assume: []string{"NaN excluded", "unsigned values beyond MaxInt64 excluded (the property bounds the domain to the int64 range)"},
		Cases:  tierN(4000, 100000),
		Run:    runC19Case,
		Pre: func(c *Ctx) error {
			pairs, cross, bad, samples := runC19Direct(c)
			c.Extra["direct_pairs"] = pairs
			c.Extra["direct_pairs_cross_kind"] = cross
			c.Extra["direct_operator_calls"] = pairs * 12
			c.Extra["exhaustive"] = true
			c.Extra["direct_samples"] = samples
			seen := map[string]bool{}
			n := 0
			for _, b := range bad {
				if seen[b] {
					continue
				}
				seen[b] = true
				if n < 12 {
					c.ExtraViolation(b, nil)
				}
				n++
			}
			c.Extra["direct_inconsistencies"] = n
			return nil
		},
		Finish: func(c *Ctx, ev *Evidence) {
			// the direct part contributes its pairs to the totals
			ev.Coverage["evaluations"] = ev.Coverage["evaluations"].(int) + c.Extra["direct_pairs"].(int)
			ev.Coverage["distinct_nontrivial"] = ev.Coverage["distinct_nontrivial"].(int) + c.Extra["direct_pairs_cross_kind"].(int)
		},
	})
}

var _ = math.MaxInt64

var c19Ops = []string{"<", "==", ">", "<=", ">=", "!="}
var c19Mirror = map[string]string{"<": ">", ">": "<", "<=": ">=", ">=": "<=", "==": "==", "!=": "!="}

// c19Rules: for every operator the rule "left op right", its mirrored spelling "right mop left"
// and the swapped condition "right op left" - all in ONE knowledge base, as a rule author may
// write them.
func c19Rules(left, right string) string {
	var text strings.Builder
	for i, op := range c19Ops {
		fmt.Fprintf(&text, "rule Op%d \"%s\" { when %s %s %s then F.B = 1; }\n", i, op, left, op, right)
	}
	for i, op := range c19Ops {
		fmt.Fprintf(&text, "rule MOp%d \"mirror of %s\" { when %s %s %s then F.B = 1; }\n", i, op, right, c19Mirror[op], left)
	}
	for i, op := range c19Ops {
		fmt.Fprintf(&text, "rule SOp%d \"swapped %s\" { when %s %s %s then F.B = 1; }\n", i, op, right, op, left)
	}
	return text.String()
}

// c19Judge compares the matched rules with the exact order cv of (left, right).
func c19Judge(matched []string, cv int, left, right string) string {
	got, gotM, gotS := map[string]bool{}, map[string]bool{}, map[string]bool{}
	for _, n := range matched {
		var i int
		switch {
		case strings.HasPrefix(n, "MOp"):
			fmt.Sscanf(n, "MOp%d", &i)
			gotM[c19Ops[i]] = true
		case strings.HasPrefix(n, "SOp"):
			fmt.Sscanf(n, "SOp%d", &i)
			gotS[c19Ops[i]] = true
		default:
			fmt.Sscanf(n, "Op%d", &i)
			got[c19Ops[i]] = true
		}
	}
	want := map[string]bool{"<": cv < 0, "==": cv == 0, ">": cv > 0, "<=": cv <= 0, ">=": cv >= 0, "!=": cv != 0}
	wantS := map[string]bool{"<": cv > 0, "==": cv == 0, ">": cv < 0, "<=": cv >= 0, ">=": cv <= 0, "!=": cv != 0}
	for _, op := range c19Ops {
		if got[op] != want[op] {
			return fmt.Sprintf("%s %s %s is %v, the values say %v", left, op, right, got[op], want[op])
		}
		if gotM[op] != want[op] {
			return fmt.Sprintf("the mirrored %s %s %s is %v, the values say %v", right, c19Mirror[op], left, gotM[op], want[op])
		}
		if gotS[op] != wantS[op] {
			return fmt.Sprintf("%s %s %s (next to %s %s %s in the same knowledge base) is %v, the values say %v", right, op, left, left, op, right, gotS[op], wantS[op])
		}
	}
	return ""
}
