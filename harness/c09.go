package main

// C09: instances are faithful copies, mutually isolated, and safe to run concurrently.
// (i) race detector over concurrent create+execute workloads, (ii) concurrent results equal the
// sequential ones, (iii) deep identity-keyed hash of blueprint / other instance unchanged while
// one instance executes, retracts and removes; no AST node address shared, (iv) instance
// creation succeeds and the instance's canonical form equals the blueprint's.

import (
	"fmt"
	"os"
	"path/filepath"
	"reflect"
	"regexp"
	"runtime"
	"sort"
	"strings"
	"sync"
	"sync/atomic"
	"unsafe"

	"github.com/hyperjumptech/grule-rule-engine/ast"
	"github.com/hyperjumptech/grule-rule-engine/engine"
)

// ---------------------------------------------------------------------------
// deep walker

type deepWalk struct {
	nodes map[string]string   // "<type>#<AstID>" -> content (scalar fields, child ids)
	addrs map[uintptr]string  // address of every AST node struct -> key
	seen  map[uintptr]bool
	extra []string // working-memory maps
}

func unexported(f reflect.Value) reflect.Value {
	if f.CanInterface() {
		return f
	}
	if f.CanAddr() {
		return reflect.NewAt(f.Type(), unsafe.Pointer(f.UnsafeAddr())).Elem()
	}
	return f
}

func astKey(v reflect.Value) string {
	// v is a struct value of an AST node type
	id := v.FieldByName("AstID")
	if id.IsValid() && id.Kind() == reflect.String {
		return v.Type().Name() + "#" + id.String()
	}
	return ""
}

func (w *deepWalk) node(p reflect.Value) string {
	// p: pointer to struct
	if p.IsNil() {
		return "nil"
	}
	v := p.Elem()
	key := astKey(v)
	if key == "" {
		key = fmt.Sprintf("%s@anon", v.Type().Name())
	}
	if w.seen[p.Pointer()] {
		return key
	}
	w.seen[p.Pointer()] = true
	if strings.Contains(key, "#") {
		w.addrs[p.Pointer()] = key
	}
	var b strings.Builder
	t := v.Type()
	for i := 0; i < t.NumField(); i++ {
		f := unexported(v.Field(i))
		name := t.Field(i).Name
		if name == "lock" || name == "DataContext" || name == "ValueNode" {
			continue
		}
		b.WriteString(name)
		b.WriteString("=")
		w.value(&b, f)
		b.WriteString(";")
	}
	w.nodes[key] = b.String()
	return key
}

func (w *deepWalk) value(b *strings.Builder, f reflect.Value) {
	switch f.Kind() {
	case reflect.Ptr:
		if f.IsNil() {
			b.WriteString("nil")
			return
		}
		if f.Elem().Kind() == reflect.Struct {
			b.WriteString("->" + w.node(f))
			return
		}
		w.value(b, f.Elem())
	case reflect.Struct:
		if f.Type() == reflect.TypeOf(reflect.Value{}) {
			rv := f.Interface().(reflect.Value)
			if !rv.IsValid() {
				b.WriteString("invalid")
			} else {
				switch rv.Kind() {
				case reflect.Ptr, reflect.Map, reflect.Slice, reflect.Interface, reflect.Struct:
					b.WriteString("val:" + rv.Kind().String())
				default:
					canonValue(b, rv)
				}
			}
			return
		}
		b.WriteString(f.Type().Name() + "{")
		for i := 0; i < f.NumField(); i++ {
			w.value(b, unexported(f.Field(i)))
			b.WriteString(",")
		}
		b.WriteString("}")
	case reflect.Slice:
		b.WriteString("[")
		for i := 0; i < f.Len(); i++ {
			w.value(b, f.Index(i))
			b.WriteString(",")
		}
		b.WriteString("]")
	case reflect.Map:
		var items []string
		it := f.MapRange()
		for it.Next() {
			var kb, vb strings.Builder
			w.value(&kb, it.Key())
			w.value(&vb, it.Value())
			items = append(items, kb.String()+"=>"+vb.String())
		}
		sort.Strings(items)
		b.WriteString("map{" + strings.Join(items, ",") + "}")
	case reflect.Interface:
		if f.IsNil() {
			b.WriteString("niliface")
			return
		}
		w.value(b, f.Elem())
	case reflect.String:
		fmt.Fprintf(b, "%q", f.String())
	case reflect.Bool:
		fmt.Fprintf(b, "%v", f.Bool())
	case reflect.Int, reflect.Int8, reflect.Int16, reflect.Int32, reflect.Int64:
		fmt.Fprintf(b, "%d", f.Int())
	case reflect.Uint, reflect.Uint8, reflect.Uint16, reflect.Uint32, reflect.Uint64:
		fmt.Fprintf(b, "%d", f.Uint())
	case reflect.Float32, reflect.Float64:
		b.WriteString(fmtFloat(f.Float()))
	default:
		b.WriteString("?" + f.Kind().String())
	}
}

// DeepState walks everything reachable from a knowledge base (all node fields, the five
// working-memory maps) and returns the identity-keyed content plus the node addresses.
func DeepState(kb *ast.KnowledgeBase) (content string, addrs map[uintptr]string) {
	w := &deepWalk{nodes: map[string]string{}, addrs: map[uintptr]string{}, seen: map[uintptr]bool{}}
	w.node(reflect.ValueOf(kb))
	keys := make([]string, 0, len(w.nodes))
	for k := range w.nodes {
		keys = append(keys, k)
	}
	sort.Strings(keys)
	var b strings.Builder
	for _, k := range keys {
		b.WriteString(k)
		b.WriteString(" :: ")
		b.WriteString(w.nodes[k])
		b.WriteString("\n")
	}
	return b.String(), w.addrs
}

func sharedAddrs(a, b map[uintptr]string) []string {
	var s []string
	for p, k := range a {
		if k2, ok := b[p]; ok {
			s = append(s, k+"=="+k2)
		}
	}
	sort.Strings(s)
	return s
}

// ---------------------------------------------------------------------------

var c09Opts = TraceOpts{MinRules: 2, MaxRules: 7, MinPool: 4, MaxPool: 8, Control: true, Announce: true, Calls: true, Strs: true, Times: true, Depth: 3, DistinctSal: true}

type seqResult struct {
	final string
	fired string
	err   string
}

type c09Op struct {
	state  State
	remove string // rule removed on the own instance before the second run ("" = none)
	max    uint64
}

func c09RunOne(lib *ast.KnowledgeLibrary, op c09Op, stamp *int64, yield int, eng *engine.GruleEngine) (r1, r2 seqResult, err error) {
	kb, err := NewInstance(lib)
	if err != nil {
		return r1, r2, err
	}
	run := func() seqResult {
		res := Run(kb, nil, CopyStateLive(op.state), RunCfg{MaxCycle: op.max, NoSnap: true, Stamp: stamp, Hooks: &Hooks{YieldP: yield}, Eng: eng})
		var fired []string
		for _, e := range res.Events {
			if e.Kind == "exec" {
				fired = append(fired, e.Rule)
			}
		}
		ec := errClass(res.Err)
		if res.Panic != nil {
			ec = fmt.Sprintf("panic: %v", res.Panic)
		}
		return seqResult{hashStr(Canon(res.Final)), strings.Join(fired, ","), ec}
	}
	r1 = run()
	if op.remove != "" {
		kb.RemoveRuleEntry(op.remove)
	}
	r2 = run()
	return r1, r2, nil
}

func runC09Case(c *Ctx, idx int) *CaseResult {
	cr := &CaseResult{}
	r := c.Rng(idx, 0)
	prog := GenTraceProgram(r, c09Opts)
	// two rules that match the same string against DIFFERENT patterns (whatever a built-in keeps
	// between calls must not leak from one goroutine's execution into another's)
	for i, pat := range []string{"^a", "b$"} {
		name := fmt.Sprintf("M%d", i+1)
		prog.Rules = append(prog.Rules, &Rule{Name: name, Desc: "pattern " + pat, HasSal: true, Sal: int64(9001 + i),
			When: CallE(VarE(P("F.S1"), TStr, reflect.String), "MatchString", TBool, reflect.Bool, LitS(pat)),
			Then: []*Stmt{Assign(P("F.B"), "=", Bin("+", TInt, VarE(P("F.B"), TInt, reflect.Int64), LitI(int64(i+1)))), {Kind: "retract", Name: name}}})
	}
	style := traceStyle(c.Rng(idx, 1))
	if style.Redundant {
		DecorateProgram(prog, c.Rng(idx, 2))
	}
	pipeline := pipelines[r.Intn(len(pipelines))]
	lib, text, err := BuildVia(pipeline, prog, style)
	if err != nil {
		cr.inconclusive("generated program rejected by the builder or the store/load pipeline (judged by C17/C12)")
		return cr
	}
	libRemoved := map[string]bool{}
	if r.Intn(4) == 0 && len(prog.Rules) > 2 {
		// a library with a removed rule
		gone := prog.Rules[r.Intn(len(prog.Rules))].Name
		lib.RemoveRuleEntry(gone, kbName, kbVer)
		libRemoved[gone] = true
		cr.inc("libraries_with_a_removed_rule")
	}
	blueprint := lib.GetKnowledgeBase(kbName, kbVer)
	// ---- (iv) faithful copy
	instA, err := NewInstance(lib)
	if err != nil {
		cr.violate("NewKnowledgeBaseInstance failed for a successfully built / loaded knowledge base: "+err.Error(), map[string]interface{}{"grl": text, "pipeline": pipeline})
		return cr
	}
	instB, _ := NewInstance(lib)
	if d := DiffCanon(CanonKB(instA, false), CanonKB(blueprint, false)); d != "" {
		cr.violate("the instance's AST differs from the blueprint's: "+d, map[string]interface{}{"grl": text, "pipeline": pipeline})
		return cr
	}
	// ---- (iii) isolation: deep state of blueprint and of instance B while A works
	bpBefore, bpAddrs := DeepState(blueprint)
	bBefore, bAddrs := DeepState(instB)
	_, aAddrs := DeepState(instA)
	for _, pair := range []struct {
		n string
		s []string
	}{{"instance and blueprint", sharedAddrs(aAddrs, bpAddrs)}, {"two instances", sharedAddrs(aAddrs, bAddrs)}, {"second instance and blueprint", sharedAddrs(bAddrs, bpAddrs)}} {
		if len(pair.s) > 0 {
			cr.violate(fmt.Sprintf("%s share %d AST node(s) (mutable state): %s", pair.n, len(pair.s), trunc(strings.Join(pair.s, " "), 300)), map[string]interface{}{"grl": text, "pipeline": pipeline})
			return cr
		}
	}
	cr.addn("ast_nodes_walked", len(aAddrs)+len(bAddrs)+len(bpAddrs))
	stA := GenState(c.Rng(idx, 10))
	Run(instA, nil, CopyStateLive(stA), RunCfg{MaxCycle: 12, NoSnap: true})
	instA.RetractRule(prog.Rules[0].Name)
	instA.RemoveRuleEntry(prog.Rules[len(prog.Rules)-1].Name)
	Run(instA, nil, CopyStateLive(GenState(c.Rng(idx, 11))), RunCfg{MaxCycle: 5, NoSnap: true})
	cr.Evals += 2
	bpAfter, _ := DeepState(blueprint)
	bAfter, _ := DeepState(instB)
	if bpAfter != bpBefore {
		cr.violate("executing / retracting / removing on an instance changed the library's blueprint: "+DiffCanon(bpAfter, bpBefore), map[string]interface{}{"grl": text, "pipeline": pipeline})
		return cr
	}
	if bAfter != bBefore {
		cr.violate("executing / retracting / removing on one instance changed another instance: "+DiffCanon(bAfter, bBefore), map[string]interface{}{"grl": text, "pipeline": pipeline})
		return cr
	}
	cr.NonTrivial = append(cr.NonTrivial, hashStr("iso|"+text))
	// ---- (i)+(ii) concurrent create+execute vs sequential
	G := 8 + r.Intn(25)
	iters := 3 + r.Intn(6)
	if c.Tier == "thorough" {
		iters = 10 + r.Intn(30)
	}
	procs := []int{1, 2, 4, 16}[idx%4]
	prev := runtime.GOMAXPROCS(procs)
	defer runtime.GOMAXPROCS(prev)
	// every other case: all goroutines execute through ONE engine object (the sequential
	// expectation is computed with the same object, so its settings are the same)
	var sharedEng *engine.GruleEngine
	if idx%2 == 1 {
		sharedEng = engine.NewGruleEngine()
		sharedEng.MaxCycle = 10
		cr.inc("cases_with_one_engine_object_for_all_goroutines")
	}
	// the concurrent phase works on a library of its own, built the same way, so that the very
	// first instances of a blueprint are created concurrently (lazily filled fields race there)
	clib, _, cerr := BuildVia(pipeline, prog, style)
	if cerr != nil {
		clib = lib
	} else {
		for n := range libRemoved {
			clib.RemoveRuleEntry(n, kbName, kbVer)
		}
	}
	ops := make([][]c09Op, G)
	want := make([][2][]seqResult, G)
	for g := 0; g < G; g++ {
		gr := c.Rng(idx, 1000+g)
		for i := 0; i < iters; i++ {
			op := c09Op{state: GenState(gr), max: uint64(4 + gr.Intn(12))}
			if gr.Intn(3) == 0 {
				op.remove = prog.Rules[gr.Intn(len(prog.Rules))].Name
			}
			ops[g] = append(ops[g], op)
			s1, s2, err := c09RunOne(lib, op, nil, 0, sharedEng)
			if err != nil {
				cr.violate("NewKnowledgeBaseInstance failed: "+err.Error(), map[string]interface{}{"grl": text})
				return cr
			}
			want[g][0] = append(want[g][0], s1)
			want[g][1] = append(want[g][1], s2)
		}
	}
	stamp := new(int64)
	type span struct{ lo, hi int64 }
	spans := make([][]span, G)
	got := make([][2][]seqResult, G)
	errs := make([]error, G)
	var wg sync.WaitGroup
	start := make(chan struct{})
	for g := 0; g < G; g++ {
		wg.Add(1)
		go func(g int) {
			defer wg.Done()
			<-start
			for i, op := range ops[g] {
				lo := atomic.AddInt64(stamp, 1)
				s1, s2, err := c09RunOne(clib, op, stamp, 1+(g+i)%4, sharedEng)
				hi := atomic.AddInt64(stamp, 1)
				if err != nil {
					errs[g] = err
					return
				}
				got[g][0] = append(got[g][0], s1)
				got[g][1] = append(got[g][1], s2)
				spans[g] = append(spans[g], span{lo, hi})
			}
		}(g)
	}
	close(start)
	wg.Wait()
	cr.Evals += G * iters * 2
	cr.addn("instances_created_concurrently", G*iters)
	for g := 0; g < G; g++ {
		if errs[g] != nil {
			cr.violate("NewKnowledgeBaseInstance failed under concurrency: "+errs[g].Error(), map[string]interface{}{"grl": text, "gomaxprocs": procs})
			return cr
		}
		for i := range ops[g] {
			for k := 0; k < 2; k++ {
				if got[g][k][i] != want[g][k][i] {
					cr.violate(fmt.Sprintf("goroutine %d iteration %d run %d: the concurrent result (fired %q, %s) differs from the sequential result for the same rules and facts (fired %q, %s)", g, i, k+1, got[g][k][i].fired, got[g][k][i].err, want[g][k][i].fired, want[g][k][i].err),
						map[string]interface{}{"grl": text, "gomaxprocs": procs, "goroutines": G})
					return cr
				}
			}
		}
	}
	// ---- (v) the library loses a rule after it has handed out instances: the next instance
	// must still be created and behave like the remaining rules
	if len(prog.Rules)-len(libRemoved) > 1 {
		lr := c.Rng(idx, 20)
		victim := prog.Rules[lr.Intn(len(prog.Rules))].Name
		lib.RemoveRuleEntry(victim, kbName, kbVer)
		libRemoved[victim] = true
		for k := 0; k < 2; k++ {
			inst, err := NewInstance(lib)
			if err != nil {
				cr.violate(fmt.Sprintf("NewKnowledgeBaseInstance failed after rule %s was removed from a library that had already handed out instances: %v", victim, err), map[string]interface{}{"grl": text, "pipeline": pipeline})
				return cr
			}
			init := GenState(c.Rng(idx, 21+k))
			cfg := RunCfg{MaxCycle: uint64(6 + 10*k)}
			res := Run(inst, prog, CopyStateLive(init), cfg)
			cr.Evals++
			a := Analyze(prog, res, cfg, libRemoved)
			var vs []Violation
			if res.Panic != nil {
				vs = append(vs, Violation{"C09", 0, "", fmt.Sprintf("panic: %v", res.Panic)})
			}
			vs = append(vs, MonFiresOnlyWhenTrue(a)...)
			vs = append(vs, MonCandidatesComplete(a)...)
			vs = append(vs, MonMaxSalience(a)...)
			vs = append(vs, MonReplayEqual(a)...)
			if len(vs) > 0 {
				cr.violate(fmt.Sprintf("an instance created after rule %s was removed from the library does not behave like the remaining rules: %s", victim, joinViol(vs[:min(2, len(vs))])), caseDetail(text, pipeline, init, res, vs))
				return cr
			}
			cr.inc("instances_after_library_removal")
		}
	}
	// overlap: did at least two goroutines work at the same time?
	overlaps := 0
	var sig strings.Builder
	type ev struct {
		s int64
		g int
	}
	var evs []ev
	for g := 0; g < G; g++ {
		for _, sp := range spans[g] {
			evs = append(evs, ev{sp.lo, g}, ev{sp.hi, g})
			for h := g + 1; h < G; h++ {
				for _, sq := range spans[h] {
					if sp.lo < sq.hi && sq.lo < sp.hi {
						overlaps++
					}
				}
			}
		}
	}
	sort.Slice(evs, func(i, j int) bool { return evs[i].s < evs[j].s })
	for _, e := range evs {
		fmt.Fprintf(&sig, "%d.", e.g)
	}
	cr.addn("overlapping_instance_lifetimes", overlaps)
	if overlaps > 0 {
		cr.NonTrivial = append(cr.NonTrivial, hashStr("conc|"+text))
		cr.set("interleaving_signatures", hashStr(sig.String()))
	}
	cr.set("gomaxprocs", fmt.Sprint(procs))
	if cr.Sample == nil && idx < 8 {
		cr.Sample = map[string]interface{}{"grl": trunc(text, 700), "pipeline": pipeline, "goroutines": G, "iterations": iters, "gomaxprocs": procs, "overlapping_pairs": overlaps}
	}
	return cr
}

var raceBlock = regexp.MustCompile(`(?s)WARNING: DATA RACE.*?==================`)
var frameRe = regexp.MustCompile(`(?m)^  (\S+)\(\)\s*$`)

// collectRaceReports reads the race detector's log files of this process.
func collectRaceReports() (blocks int, distinct map[string]string) {
	distinct = map[string]string{}
	lp := ""
	for _, kv := range strings.Fields(os.Getenv("GORACE")) {
		if strings.HasPrefix(kv, "log_path=") {
			lp = strings.TrimPrefix(kv, "log_path=")
		}
	}
	if lp == "" {
		return 0, distinct
	}
	files, _ := filepath.Glob(lp + "." + fmt.Sprint(os.Getpid()))
	for _, f := range files {
		b, err := os.ReadFile(f)
		if err != nil {
			continue
		}
		for _, blk := range raceBlock.FindAllString(string(b), -1) {
			blocks++
			// de-duplicate by the pair of innermost engine frames
			var fr []string
			for _, m := range frameRe.FindAllStringSubmatch(blk, -1) {
				if strings.Contains(m[1], "grule-rule-engine") {
					fr = append(fr, m[1])
				}
			}
			key := "no engine frame"
			if len(fr) > 0 {
				key = fr[0]
				for _, x := range fr[1:] {
					if x != fr[0] {
						key += " <-> " + x
						break
					}
				}
			}
			if _, ok := distinct[key]; !ok {
				distinct[key] = trunc(blk, 1800)
			}
		}
	}
	return blocks, distinct
}

func raceFinish(c *Ctx, ev *Evidence) {
	blocks, distinct := collectRaceReports()
	ev.Coverage["race_detector_enabled"] = raceEnabled
	ev.Coverage["race_report_blocks"] = blocks
	ev.Coverage["race_reports_distinct"] = len(distinct)
	if !raceEnabled {
		c.ExtraViolation("harness error: this check must run in the race-detector build (use ./check)", nil)
		return
	}
	keys := make([]string, 0, len(distinct))
	for k := range distinct {
		keys = append(keys, k)
	}
	sort.Strings(keys)
	for _, k := range keys {
		c.ExtraViolation("data race reported by the race detector involving "+k, map[string]interface{}{"report": distinct[k]})
	}
}

func init() {
	register(&Check{
		ID: "C09", Level: "exploration",
		Rule: "per case one rule set with pairwise distinct saliences (unique result), built from GRL / reloaded from GRB / rule-per-resource, every fourth library with a removed rule: (iv) instance creation must succeed and the instance's canonical AST equal the blueprint's; (iii) reflection+unsafe walker over everything reachable from blueprint and two instances (all node fields incl. memo flags, the five working-memory maps): no AST node address shared, and the identity-keyed content of blueprint and instance B unchanged while instance A executes, has a rule retracted and a rule removed; (i)+(ii) 8-32 goroutines x 3-8 iterations (10-40 thorough) each create an instance, execute on their own different facts, sometimes remove a rule on their own instance, execute again, with yields inside harness methods, GOMAXPROCS rotating over {1,2,4,16}, race-detector build; every result (final facts, fired sequence, error class) must equal the sequential result; non-trivial = distinct cases whose isolation walk ran, plus distinct cases in which >=2 goroutines' instance lifetimes overlapped (from the shared stamp counter); the concurrent phase works on a second library built the same way (first instances of a blueprint are created concurrently), every other case executes all goroutines through ONE engine object; afterwards a rule is removed from the library and further instances must be created and behave like the remaining rules; every rule set carries two rules matching one string against different patterns",
		Assume: []string{"samples schedules, does not enumerate them", "the race detector only sees accesses the workload performs", "sharing of immutable data (strings) is not an alarm"},
		Cases:  tierN(60, 400),
		Serial: true,
		Run:    runC09Case,
		Finish: raceFinish,
	})
}
