#!/bin/bash
# Runs the repository suite (plus the property's own check) for kept seeded changes whose meta.json has no suite result yet.
# usage: tools/seed_suite.sh [parallelism]
cd "$(dirname "$0")/.."
P=${1:-1}
for d in seeded/*/; do
  id=$(basename "$d"); prop=${id%%-*}
  if ! grep -q suite_with_change "$d/meta.json" 2>/dev/null; then
    echo "$d $id $prop $prop"
  fi
done | xargs -P "$P" -L 1 sh -c 'echo "=== $1"; python3 tools/seed_eval.py "$0" "$1" "$2" "$3" 2>&1 | grep -E "KEPT|REJECT" | cut -c1-200'
