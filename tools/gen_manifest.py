#!/usr/bin/env python3
"""Generates /verif/MANIFEST.json from the table below (single source of truth for the interface)."""
import json, os, subprocess, sys

HERE = os.path.dirname(os.path.dirname(os.path.abspath(__file__)))

# id -> (category, technique, level text, level note, design ref)
CHECKS = {
 "C01": ("exploration", "trace monitor vs reference interpreter (from-scratch truth at every BeginCycle)",
         "Runs the real engine on thousands of generated rule sets x fact states through four build pipelines; at every BeginCycle an independent reference interpreter evaluates every rule condition from scratch on a deep copy of the live facts; any candidate flag or firing on a false/failing/retracted rule is a violation. Held on the executions listed in the evidence, nothing more.",
         "Trusted: harness reference interpreter (ref.go), the listener/data-context proxy as observation channel (validated by C06's protocol monitor), generated domain only.", "DESIGN §5 C01"),
 "C02": ("exploration", "trace monitor vs reference interpreter (candidate completeness, quiescence at return)",
         "Same executions as C01's generator; every active rule whose reference truth is true must be reported as candidate in that cycle, and a nil return without Complete must be quiescent on the final facts.",
         "Trusted: reference interpreter; domain restrictions of DESIGN §5 C01.", "DESIGN §5 C02"),
 "C03": ("exploration", "trace monitor: reference conflict set recomputed per cycle, 8 runs per case for map-order variety",
         "Conflict-set profile (many simultaneously true rules, extreme/equal/negative saliences in all notations); the fired rule must be maximal in the independently recomputed conflict set, one firing per cycle, whole action list applied before the next evaluation, entry salience equals the declared literal.",
         "Trusted: reference interpreter; ties may be broken arbitrarily.", "DESIGN §5 C03"),
 "C04": ("exploration", "deep state comparison after every firing vs independent replay",
         "Assignment-matrix profile; after each firing the whole fact universe (Go objects, JSON tree, data-context entries) is deep-compared, with dynamic kinds, against the reference application of the fired rule's action list.",
         "Trusted: reference store semantics (ref.go storeGo); values within destination range (else inconclusive tail).", "DESIGN §5 C04"),
 "C06": ("exploration", "protocol automaton over listener/data-context events + budget enumeration around the natural run length",
         "MaxCycle enumerated over {0,1,n-1,n,n+1,n+2}; event protocol (consecutive cycle numbers, each active rule evaluated exactly once with its real flag, <=1 execution of a reported candidate, listeners agree), cycle-limit error exactly when one more firing is needed; non-termination detected on logical steps (BeginCycle count), never on wall-clock.",
         "Trusted: reference interpreter for 'needed firings'; bounded-progress restatement of 'always returns'.", "DESIGN §5 C06"),
 "C10": ("exploration", "trace monitor: retracted set replayed from the fired rules' own action lists",
         "Control profile (self/other/multiple/unknown Retract, Complete at every position); retracted rules are never evaluated or fired again in the call, all others still are; after Complete the remaining statements run, nothing further happens, nil is returned.",
         "Trusted: reference interpreter; Function_en reading of Retract (stays out until next Execute).", "DESIGN §5 C10"),
 "C05": ("exploration", "differential: engine vs reference interpreter, 4 spellings per expression, documented literal tables vs math/big",
         "Typed random expression trees over all operators x operand kinds, built-ins and fixed/variadic fact methods; the engine's value (stored into a nil interface field so the dynamic kind is visible; candidate flag for booleans) must equal the reference value under the PUBLISHED precedence table in every spelling; literal tables of the docs replayed verbatim. Known findings K1/K2/K6 are matched by narrow signatures (regroup counterfactual, exact literal, exact lexer cell).",
         "Trusted: reference interpreter; math/big for literal values; overflow/div0/NaN-free states only.", "DESIGN §5 C05"),
 "C08": ("exploration", "history monitor: per-call trace monitors re-armed under fresh-instance assumptions",
         "Histories of 2-6 Execute / ExecuteWithContext / FetchMatchingRules calls on one instance with different facts and endings (normal, Complete, action error, cycle limit, cancellation at a chosen event); each call must satisfy the C01/C02/C03/C06/C10 monitors and fetch exactness as if the instance were new.",
         "Trusted: reference interpreter; permitted-behaviour reading of 'as if just created'.", "DESIGN §5 C08"),
 "C11": ("exploration", "set/order comparison with the reference matching set, deep fact comparison before/after",
         "FetchMatchingRules on generated rule sets incl. removed rules, equal saliences, erroring conditions, fresh and previously executed instances, both flag settings, 8 repetitions each (map order).",
         "Trusted: reference interpreter.", "DESIGN §5 C11"),
 "C13": ("exploration", "call-count monitor: logged calls per call text vs 1 + invalidation events from the validated trace",
         "Counted pure methods carrying an id per call text are injected into 1..12 rules; calls per id must not exceed 1 + the invalidation events (executed assignments overlapping a variable of the call, Forget/Changed naming it) of the validated trace. Generous overlap: can miss an unnecessary re-evaluation between sibling elements, never accuses correct code.",
         "Trusted: trace validity (C01/C06 monitors are run first; unvalidated traces are inconclusive).", "DESIGN §5 C13"),
 "C14": ("fault_enumeration", "fault enumeration at the harness-method boundary + hostile fact states predicted by the reference",
         "The k-th harness-method call of a run fails (panic / poisoned value fitting its site) for every k up to 60 (quick) / 200 (thorough) per program, both flag settings; conditions (incl. a call text shared by two rules) and 1st/2nd/3rd action statements; static faults (nil pointers, short slices, missing keys/members/facts, kind mismatches, zero divisors). Checks: no panic escapes, failing rule not a candidate, other rules' flags equal the reference, error naming the rule when required, effects of completed statements kept, no further firing.",
         "Trusted: reference interpreter; a poisoned return value is a successful call and is legitimately remembered (rules sharing that call text are not judged after it).", "DESIGN §5 C14"),
 "C15": ("fault_enumeration", "enumerated synchronous cancellation points + asynchronous cancellation under the race detector",
         "cancel() is invoked at every boundary event of the run (BeginCycle, each evaluation, ExecuteRuleEntry, harness-method calls inside conditions and actions), plus pre-cancelled / expired contexts and asynchronous cancellation from a second goroutine (verdict from stamp order). No action effect of a firing started after the instant; facts equal a prefix of the running rule's list; context error returned when a firing was still due.",
         "Trusted: reference interpreter; programs without Complete().", "DESIGN §5 C15"),
 "C19": ("exploration", "exhaustive consistency + exact-order oracle over a finite boundary domain, plus GRL sample",
         "All six operators, mirrored calls and the exact mathematical order (math/big) for every ordered pair over 12 numeric kinds x 3 wrappings x 32 boundary values, strings, booleans, times (locations, monotonic reading); exhaustive over that finite domain (evidence: exhaustive=true for the direct part). A seeded sample goes through GRL conditions over typed fields.",
         "Trusted: math/big; domain bounded to the int64 range, NaN excluded.", "DESIGN §5 C19"),
 "C07": ("exploration", "self-differential: rule built alone vs with a near-identical sibling (canonical AST form + behaviour)",
         "One catalogue mutation per pair (constants differing in late digits / sign / exponent / kind, strings with quotes and brackets, crafted snapshot-imitating strings, operators, negations, operand order, selectors, arguments, names), every build order; alone vs together compared by canonical form of the engine AST reachable from the entry and by FetchMatchingRules membership + execution results on random states and states at / between the two constants.",
         "Trusted: canonical printer over exported AST fields; no reference semantics involved.", "DESIGN §5 C07"),
 "C09": ("exploration", "race detector + sequential-reference comparison + reflection/unsafe deep-state walker",
         "Race-detector build: 8-32 goroutines create instances from one library and execute them on their own facts (yields, GOMAXPROCS 1/2/4/16), each result compared with the sequential result; deep identity-keyed walk of blueprint and instances (all node fields, the five working-memory maps): no shared AST node, blueprint and other instance unchanged while one instance executes / retracts / removes; instance creation succeeds and equals the blueprint canonically. Race reports are read from the detector's log and de-duplicated.",
         "Samples schedules; the race detector sees only accesses the workload performs.", "DESIGN §5 C09"),
 "C12": ("fault_enumeration", "truncation-offset and failing-writer enumeration + round-trip canonical / behavioural comparison",
         "Per program: store with Write-call sizes recorded; round trip twice through 4 legal readers with canonical-form and per-run-monitor comparison against the ORIGINAL program; truncation at every field boundary (+ neighbours, + inside-field sample; every offset in thorough) must fail to load, also through one-byte / half / data-with-EOF readers; writer failing at its k-th call (quota in quick, every index in thorough; error and partial-write flavours) must make the store fail; overwrite=false leaves the existing entry untouched.",
         "Trusted: reference interpreter for the behavioural half; canonical printer.", "DESIGN §5 C12"),
 "C16": ("exploration", "history monitor: executable model + probe after every step",
         "Histories of build / remove (library, knowledge base, instance) / rebuild / instantiate / store / load over up to 4 knowledge bases whose (name, version) pairs collide under naive joining; after EVERY step every knowledge base is probed (FetchMatchingRules + Execute on a fresh instance, each rule records the id of its own text) and compared with a model kb -> name -> text id.",
         "Trusted: the dozen-line model; partially kept rules of a rejected multi-rule text follow the probe.", "DESIGN §5 C16"),
 "C17": ("exploration", "differential against an independent recogniser (ANTLR-semantics lexer + Earley + literal/name validity)",
         "Valid generated documents and token- / character-level mutants (1-3 edits) plus a targeted library, loaded into empty and preloaded knowledge bases; acceptance must equal the recogniser's verdict, accepted rules must carry declared name / description / salience, syntax rejections must be a GruleErrorReporter with >=1 error, and the preloaded rules must instantiate, store, load and behave as before after every document.",
         "Trusted: harness/recog.go as the specification of 'grammatical' (transcribed from grulev3.g4 and the docs; 0 disagreements with the unchanged builder on >500 000 documents).", "DESIGN §5 C17"),
 "C18": ("exploration", "differential: engine on translated GRL vs reference evaluation of the JSON tree",
         "Typed operator trees rendered as JSON with every mix of operand forms, constants of every kind and magnitude, via ParseJSONRule(set) and JSONResource; the GRL must build, carry name / description / salience and evaluate to the reference value with operands grouped exactly as nested; a table of malformed rules must be rejected through every entry point. K3 (escaped descriptions) matched by an exact counterfactual signature.",
         "Trusted: reference interpreter; one-operand not = negation of an operator object; plain strings are raw GRL (atoms only).", "DESIGN §5 C18"),
 "C20": ("exploration", "sandboxed child processes (RLIMIT_AS, BEGIN/END progress log, in-child CPU watchdog, MemStats.Sys growth)",
         "Random bytes, valid seeds and structure-aware mutants (bit flips, byte edits, truncation, splicing, dictionary tokens, boundary numbers, deep nesting, edits of every 8-byte GRB length / count field) for the four loaders; verdicts: panic escaping the API, death of the process (fatal error, OOM under RLIMIT_AS, stack overflow), CPU time above T(n), OS memory growth above M(n). Hangs are decided on the child's CPU time, the parent's wall-clock watchdog only yields inconclusive.",
         "Budgets T(n) = 30 s + 2 us n^2 and M(n) = 512 MiB + 256 n are fixed (>=10x the measured worst case, reported in the evidence); inputs <= 4 KiB (rules) / 64 KiB (facts, GRB).", "DESIGN §5 C20"),
}


NOT_YET = {}

def main():
    props = [json.loads(l) for l in open(os.path.join(HERE, "properties.jsonl"))]
    ids = [p["id"] for p in props]
    checks = []
    na = []
    for pid in ids:
        if pid in CHECKS:
            cat, tech, text, note, ref = CHECKS[pid]
            checks.append({
                "property_id": pid,
                "quick_cmd": "./check %s quick" % pid,
                "thorough_cmd": "./check %s thorough" % pid,
                "evidence_file": "evidence/%s.json" % pid,
                "replay_cmd_template": "./check %s --replay {path}" % pid,
                "engine": "harness",
                "level_claimed": {"category": cat, "text": text, "design_ref": ref},
                "level_note": note,
                "technique": tech,
            })
        else:
            na.append({"property_id": pid, "reason": NOT_YET.get(pid, "check not built yet (work in progress in this session; runtime monitoring applies, see DESIGN.md §5)")})
    hooks_commits = []
    m = {
        "version": 1,
        "setup_cmd": "./setup.sh",
        "hooks": {
            "guard": "verif",
            "enable": "go build -tags verif (passed on every harness build; no source hook is needed: all observation goes through the public listener / data-context / io interfaces)",
            "baseline_off_cmd": "cd /repo && GOFLAGS=-mod=mod GOPROXY=off GOTOOLCHAIN=local PATH=/root/go/pkg/mod/golang.org/toolchain@v0.0.1-go1.24.4.linux-amd64/bin:$PATH go test -json -vet=off -count=1 -timeout 25m ./...",
            "source_commits": hooks_commits,
            "add_only": True,
        },
        "engines": [{"name": "harness", "path": "harness", "serves_properties": sorted(CHECKS.keys()),
                     "kind_free_text": "Go module linked against /repo's working tree: generators, independent reference interpreter, recorder (listener + data-context proxy + hooked fact methods), trace monitors, fault/cancel enumerators, child-process sandbox, race-detector builds"}],
        "checks": checks,
        "not_applicable": na,
        "notes": "Technique family: runtime monitoring and sanitizers. Exit codes: 0 held on everything explored, 1 violation (VIOLATION line), 2 inconclusive/broken run. known_findings.json lists recorded defects (open) and repaired ones (fixed).",
    }
    json.dump(m, open(os.path.join(HERE, "MANIFEST.json"), "w"), indent=1)
    print("wrote MANIFEST.json: %d checks, %d not_applicable" % (len(checks), len(na)))

if __name__ == "__main__":
    main()
