package main

// C05: expressions evaluate per the documented operator and literal semantics.
// Differential between the engine and the reference interpreter, one expression per knowledge
// base, every tree printed in four spellings; documented literal tables replayed verbatim.

import (
	"fmt"
	"math"
	"math/big"
	"math/rand"
	"reflect"
	"strings"
)

// regroupAsBuilt returns the tree the parser builds from the text the printer (published table,
// no AmpSafe) produces for e, if `&` groups at the additive level (the as-built grammar).
func regroupAsBuilt(e *Expr) *Expr {
	if e == nil {
		return nil
	}
	c := *e
	switch {
	case isBinOp(e.Op):
		var operands []*Expr
		var ops []string
		flattenPublished(e, &operands, &ops)
		for i, o := range operands {
			operands[i] = regroupOperand(o)
		}
		n := climb(&operands, &ops, 1)
		n.Par = e.Par
		return n
	default:
		return regroupOperandInner(&c)
	}
}

// regroupOperand: o is an operand of a flat sequence: an atom, or a binary node that the printer
// parenthesises (explicitly via Par or because precedence requires it).
func regroupOperand(o *Expr) *Expr {
	if isBinOp(o.Op) {
		n := regroupAsBuilt(o)
		if n.Par == 0 {
			n.Par = 1 // the printer put parentheses here; keep the group
		}
		return n
	}
	return regroupOperandInner(o)
}

func regroupOperandInner(o *Expr) *Expr {
	c := *o
	if o.L != nil {
		c.L = regroupAsBuilt(o.L)
	}
	if o.R != nil {
		c.R = regroupAsBuilt(o.R)
	}
	if o.Recv != nil {
		c.Recv = regroupOperandInner(o.Recv)
	}
	if len(o.Args) > 0 {
		c.Args = make([]*Expr, len(o.Args))
		for i, a := range o.Args {
			c.Args[i] = regroupAsBuilt(a)
		}
	}
	if o.Path != nil {
		p := &Path{Root: o.Path.Root}
		for _, st := range o.Path.Steps {
			p.Steps = append(p.Steps, Step{F: st.F, Sel: regroupAsBuilt(st.Sel)})
		}
		c.Path = p
	}
	return &c
}

func flattenPublished(e *Expr, operands *[]*Expr, ops *[]string) {
	p := publishedPrec[e.Op]
	inlineL := isBinOp(e.L.Op) && e.L.Par == 0 && !(publishedPrec[e.L.Op] < p)
	inlineR := isBinOp(e.R.Op) && e.R.Par == 0 && !(publishedPrec[e.R.Op] <= p)
	if inlineL {
		flattenPublished(e.L, operands, ops)
	} else {
		*operands = append(*operands, e.L)
	}
	*ops = append(*ops, e.Op)
	if inlineR {
		flattenPublished(e.R, operands, ops)
	} else {
		*operands = append(*operands, e.R)
	}
}

var asBuiltPrec = map[string]int{"*": 5, "/": 5, "%": 5, "&": 4, "+": 4, "-": 4, "|": 4, "==": 3, "!=": 3, "<": 3, "<=": 3, ">": 3, ">=": 3, "&&": 2, "||": 1}

// climb parses operands/ops (consumed from the front) by precedence climbing, left associative.
func climb(operands *[]*Expr, ops *[]string, minPrec int) *Expr {
	lhs := (*operands)[0]
	*operands = (*operands)[1:]
	for len(*ops) > 0 && asBuiltPrec[(*ops)[0]] >= minPrec {
		op := (*ops)[0]
		*ops = (*ops)[1:]
		rhs := climb(operands, ops, asBuiltPrec[op]+1)
		lhs = &Expr{Op: op, L: lhs, R: rhs, Ty: TAny}
	}
	return lhs
}

func sameTree(a, b *Expr) bool {
	if a == nil || b == nil {
		return a == b
	}
	if a.Op != b.Op || len(a.Args) != len(b.Args) {
		return false
	}
	if !sameTree(a.L, b.L) || !sameTree(a.R, b.R) {
		return false
	}
	for i := range a.Args {
		if !sameTree(a.Args[i], b.Args[i]) {
			return false
		}
	}
	if a.Recv != nil && !sameTree(a.Recv, b.Recv) {
		return false
	}
	if a.Path != nil && b.Path != nil {
		if len(a.Path.Steps) != len(b.Path.Steps) {
			return false
		}
		for i := range a.Path.Steps {
			if !sameTree(a.Path.Steps[i].Sel, b.Path.Steps[i].Sel) {
				return false
			}
		}
	}
	return true
}

func hasAmp(e *Expr) bool {
	f := false
	e.Walk(func(x *Expr) {
		if x.Op == "&" {
			f = true
		}
	})
	return f
}

// c05Program wraps e: rule S stores it into the nil interface field F.Any (so the dynamic kind
// is visible); when e is boolean rule Cnd uses it as condition.
func c05Program(e *Expr) *Program {
	p := &Program{}
	p.Rules = append(p.Rules, &Rule{Name: "S", Desc: "sink", HasSal: true, Sal: 10, When: LitB(true),
		Then: []*Stmt{Assign(P("F.Any"), "=", e), {Kind: "retract", Name: "S"}}})
	if e.Ty == TBool {
		p.Rules = append(p.Rules, &Rule{Name: "Cnd", Desc: "condition", When: e,
			Then: []*Stmt{Assign(P("G.B"), "=", LitI(12345)), {Kind: "retract", Name: "Cnd"}}})
	}
	return p
}

func c05Styles(r *rand.Rand) []*Style {
	return []*Style{
		{},
		{R: rand.New(rand.NewSource(r.Int63())), Spacing: true, Tight: true},
		{R: rand.New(rand.NewSource(r.Int63())), KwCase: true, LitNot: true},
		{R: rand.New(rand.NewSource(r.Int63())), Spacing: true, KwCase: true, LitNot: true, NotParen: true, Tight: true},
	}
}

func cellsOf(e *Expr, cr *CaseResult) {
	e.Walk(func(x *Expr) {
		switch {
		case isBinOp(x.Op):
			cr.set("operator_kind_cells", fmt.Sprintf("%s:%s,%s", x.Op, kindName(x.L), kindName(x.R)))
		case x.Op == "call":
			cr.set("functions", x.Fn)
		case x.Op == "not":
			cr.set("operator_kind_cells", "!:"+kindName(x.L))
		}
	})
}

func kindName(e *Expr) string {
	if e == nil {
		return "-"
	}
	if (e.Op == "var" || e.Op == "call") && e.GK != 0 {
		k := reflect.Kind(e.GK)
		if k == reflect.Struct {
			return "time"
		}
		return k.String()
	}
	return e.Ty.String()
}

func opClasses(e *Expr) int {
	cl := map[string]bool{}
	e.Walk(func(x *Expr) {
		switch x.Op {
		case "*", "/", "%", "+", "-":
			cl["arith"] = true
		case "&", "|":
			cl["bit"] = true
		case "==", "!=", "<", "<=", ">", ">=":
			cl["cmp"] = true
		case "&&", "||":
			cl["logic"] = true
		case "not":
			cl["not"] = true
		case "call":
			cl["call"] = true
		}
	})
	return len(cl)
}

func runC05Case(c *Ctx, idx int) *CaseResult {
	cr := &CaseResult{}
	if idx < len(docLiterals) {
		return runLiteralCase(c, idx, cr)
	}
	// generator cases keep their PRNG index when the function table grows
	pidx := idx
	if idx-len(docLiterals) >= 2*len(c05FuncCases) {
		pidx = idx - 2*(len(c05FuncCases)-c05TableFrozen)
	}
	r := c.Rng(pidx, 0)
	depth := 4
	if c.Tier == "thorough" {
		depth = 6
	}
	st := GenState(c.Rng(pidx, 1))
	g := &Gen{R: r, Pool: catalog, Calls: true, Strs: true, Times: true, ShortCircuit: CopyState(st)}
	var e *Expr
	if t := idx - len(docLiterals); t < 2*len(c05FuncCases) {
		// the function table, once with literal receivers and once through a fact field
		e = c05FuncCases[t%len(c05FuncCases)]
		if t >= len(c05FuncCases) {
			e = c05RecvViaField(e, st)
		}
		if _, err := refStrict.Eval(e, CopyState(st)); err != nil {
			return cr // outside the domain (NaN, infinite) or not expressible
		}
		cr.inc("function_table_cases")
	}
	for tries := 0; tries < 40 && e == nil; tries++ {
		ty := []Ty{TInt, TInt, TUint, TFloat, TFloat, TStr, TBool, TBool, TBool, TTime}[r.Intn(10)]
		cand := g.Expr(ty, 1+r.Intn(depth))
		if _, err := refStrict.Eval(cand, CopyState(st)); err != nil {
			continue
		}
		// a bare pointer/interface variable can not be stored (out of domain)
		if cand.Op == "var" && cand.GK == int(reflect.Ptr) {
			continue
		}
		e = cand
		break
	}
	if e == nil {
		cr.inconclusive("no in-domain expression found for this state")
		return cr
	}
	Decorate(e, c.Rng(pidx, 2))
	prog := c05Program(e)
	cellsOf(e, cr)
	styles := c05Styles(c.Rng(pidx, 3))
	var firstText string
	for si, style := range styles {
		text := style.PrintProgram(prog)
		if si == 0 {
			firstText = text
		}
		lib, err := BuildLib(text)
		if err != nil {
			if known := c05KnownBuild(c, e, text); known {
				cr.inc("known_finding_hits")
				continue
			}
			cr.violate(fmt.Sprintf("spelling %d of a well-typed expression is rejected by the builder (%v) while other spellings / the grammar accept it", si, err),
				map[string]interface{}{"grl": text, "plain": firstText})
			continue
		}
		kb, err := NewInstance(lib)
		if err != nil {
			cr.inconclusive("instance creation failed (judged by C09)")
			continue
		}
		init := CopyStateLive(st)
		cfg := RunCfg{MaxCycle: 5}
		res := Run(kb, prog, init, cfg)
		cr.Evals++
		a := Analyze(prog, res, cfg, nil)
		var vs []Violation
		if res.Panic != nil {
			vs = append(vs, Violation{"C05", 0, "", fmt.Sprintf("panic: %v", res.Panic)})
		}
		vs = append(vs, MonReplayEqual(a)...)
		vs = append(vs, MonFiresOnlyWhenTrue(a)...)
		vs = append(vs, MonCandidatesComplete(a)...)
		if res.Err != nil {
			vs = append(vs, Violation{"C05", 0, "", "evaluation of a well-typed expression failed: " + res.Err.Error()})
		}
		if a.DomainFrom >= 0 {
			cr.inconclusive("reference left its domain: " + trunc(a.Cycles[a.DomainFrom].DomainMsg, 50))
			continue
		}
		if len(vs) == 0 {
			continue
		}
		// K1 triage: does the as-built grouping of & explain exactly what the engine did?
		if hasAmp(e) {
			e2 := regroupAsBuilt(e)
			if !sameTree(e, e2) {
				e2.Ty = e.Ty
				prog2 := c05Program(e2)
				kb2, err2 := NewInstance(lib)
				if err2 == nil {
					res2 := Run(kb2, prog2, CopyStateLive(st), cfg)
					a2 := Analyze(prog2, res2, cfg, nil)
					var v2 []Violation
					v2 = append(v2, MonReplayEqual(a2)...)
					v2 = append(v2, MonFiresOnlyWhenTrue(a2)...)
					v2 = append(v2, MonCandidatesComplete(a2)...)
					if len(v2) == 0 && res2.Panic == nil {
						if k, ok := findKnown(c, "K1"); ok {
							c.ReportKnown(k)
							cr.inc("known_finding_hits_K1")
							continue
						}
					}
				}
			}
		}
		cr.violate(joinViol(vs[:min(2, len(vs))]), map[string]interface{}{"grl": text, "plain": firstText, "spelling": si,
			"reference_value": refValueText(e, st), "engine_any": engineAny(res), "initial_facts": Canon(st)})
	}
	if e.Depth() >= 3 && opClasses(e) >= 2 || hasFancyLiteral(e) {
		cr.NonTrivial = append(cr.NonTrivial, hashStr(firstText+Canon(st)))
	}
	if cr.Sample == nil && idx%97 == 0 {
		cr.Sample = map[string]interface{}{"expression": ExprText(e), "family": e.Ty.String(), "reference_value": refValueText(e, st),
			"spellings": []string{trunc(styles[1].PrintExpr(e), 300), trunc(styles[3].PrintExpr(e), 300)}}
	}
	return cr
}

func hasFancyLiteral(e *Expr) bool {
	f := false
	e.Walk(func(x *Expr) {
		if x.Op == "lit" && x.Ty == TStr && strings.ContainsAny(x.Lit.S, "\"'\\\n\t") {
			f = true
		}
	})
	return f
}

func refValueText(e *Expr, st State) string {
	v, err := ref.Eval(e, CopyState(st))
	if err != nil {
		return err.Error()
	}
	return v.String()
}

func engineAny(res *RunResult) string {
	if f, ok := res.Final["F"].(*Fact); ok {
		return fmt.Sprintf("%T:%v", f.Any, f.Any)
	}
	return "?"
}

func findKnown(c *Ctx, id string) (KnownFinding, bool) {
	for _, k := range c.OpenFindings() {
		if k.ID == id {
			return k, true
		}
	}
	return KnownFinding{}, false
}

// c05KnownBuild: no generated spelling is expected to hit a known lexer finding (the printer
// stays out of the K6 cell); kept as the hook where such a signature would be matched.
func c05KnownBuild(c *Ctx, e *Expr, text string) bool { return false }

// ---------------------------------------------------------------------------
// documented literals (GRL_Literals_en.md, GRL_en.md), replayed verbatim

type docLit struct {
	Text string
	Kind string // int float string bool error expr
	Str  string // expected string value
	Bool bool
	Int  int64 // for Kind expr
}

var docLiterals = []docLit{
	{Text: `"a quick brown fox jumps over a lazy dog"`, Kind: "string", Str: "a quick brown fox jumps over a lazy dog"},
	{Text: `'a quick brown fox jumps over a lazy dog'`, Kind: "string", Str: "a quick brown fox jumps over a lazy dog"},
	{Text: "\"A quick brown fox\n    Jumps\nOver a lazy dog\"", Kind: "string", Str: "A quick brown fox\n    Jumps\nOver a lazy dog"},
	{Text: `"This string contains \" Double Quote"`, Kind: "string", Str: `This string contains " Double Quote`},
	{Text: "0", Kind: "int"}, {Text: "123", Kind: "int"}, {Text: "34592", Kind: "int"}, {Text: "-1", Kind: "int"}, {Text: "-47234", Kind: "int"},
	{Text: "01", Kind: "int"}, {Text: "07", Kind: "int"}, {Text: "010", Kind: "int"}, {Text: "017", Kind: "int"}, {Text: "-034", Kind: "int"}, {Text: "-045", Kind: "int"},
	{Text: "04328", Kind: "error"},
	{Text: "0x1", Kind: "int"}, {Text: "0xF", Kind: "int"}, {Text: "0x10", Kind: "int"}, {Text: "0x1F", Kind: "int"}, {Text: "0xFF00", Kind: "int"},
	{Text: "-0x12", Kind: "int"}, {Text: "-0x00ABCD", Kind: "int"}, {Text: "-0x890AbCdEf", Kind: "int"},
	{Text: "0.", Kind: "float"}, {Text: "72.40", Kind: "float"}, {Text: "072.40", Kind: "float"}, {Text: "2.71828", Kind: "float"},
	{Text: "1.e+0", Kind: "float"}, {Text: "6.67428e-11", Kind: "float"}, {Text: "1E6", Kind: "float"}, {Text: ".25", Kind: "float"},
	{Text: ".12345E+5", Kind: "float"}, {Text: "-072.40", Kind: "float"}, {Text: "-2.71828", Kind: "float"}, {Text: "-1.e+0", Kind: "float"},
	{Text: "0x1p-2", Kind: "float"}, {Text: "0x2.p10", Kind: "float"}, {Text: "0x1.Fp+0", Kind: "float"}, {Text: "0X.8p-0", Kind: "float"},
	{Text: "0X_1FFFP-16", Kind: "float"},
	{Text: "0x15e-2", Kind: "expr", Int: 0x15e - 2},
	{Text: "true", Kind: "bool", Bool: true}, {Text: "TRUE", Kind: "bool", Bool: true}, {Text: "True", Kind: "bool", Bool: true}, {Text: "TrUe", Kind: "bool", Bool: true},
	{Text: "false", Kind: "bool"}, {Text: "False", Kind: "bool"}, {Text: "FALSE", Kind: "bool"}, {Text: "FaLsE", Kind: "bool"},
	// boundaries (Go value by definition of the notation)
	{Text: "9223372036854775807", Kind: "int"}, {Text: "-9223372036854775808", Kind: "int"}, {Text: "0x7fffffffffffffff", Kind: "int"},
	{Text: "-0x8000000000000000", Kind: "int"}, {Text: "0777777777777777777777", Kind: "int"}, {Text: "9223372036854775808", Kind: "error"},
	{Text: "1.7976931348623157e308", Kind: "float"}, {Text: "5e-324", Kind: "float"}, {Text: "0.1", Kind: "float"}, {Text: "1e-7", Kind: "float"},
	{Text: "123456789.123456789", Kind: "float"}, {Text: "0x1.fffffffffffffp+1023", Kind: "float"}, {Text: "2e308", Kind: "error"},
	{Text: `'it''s'`, Kind: "skip"},
	{Text: `"tab\there\x41\101é\U0001F600"`, Kind: "string", Str: "tab\there\x41\101é\U0001F600"},
	{Text: `'single \' quote and " double'`, Kind: "string", Str: `single ' quote and " double`},
	{Text: `"bad \q escape"`, Kind: "error"},
}

// bigInt parses an integer literal independently of strconv (hand-written base conversion).
func bigInt(text string) (*big.Int, bool) {
	neg := strings.HasPrefix(text, "-")
	t := strings.TrimPrefix(text, "-")
	base := int64(10)
	switch {
	case strings.HasPrefix(t, "0x"), strings.HasPrefix(t, "0X"):
		base, t = 16, t[2:]
	case len(t) > 1 && t[0] == '0':
		base, t = 8, t[1:]
	}
	v := new(big.Int)
	for _, ch := range t {
		var d int64
		switch {
		case ch >= '0' && ch <= '9':
			d = int64(ch - '0')
		case ch >= 'a' && ch <= 'f':
			d = int64(ch-'a') + 10
		case ch >= 'A' && ch <= 'F':
			d = int64(ch-'A') + 10
		default:
			return nil, false
		}
		if d >= base {
			return nil, false
		}
		v.Mul(v, big.NewInt(base))
		v.Add(v, big.NewInt(d))
	}
	if neg {
		v.Neg(v)
	}
	return v, true
}

// bigFloat computes the float64 nearest to the literal with math/big (not strconv.ParseFloat).
func bigFloat(text string) (float64, bool) {
	f, _, err := big.ParseFloat(text, 0, 2000, big.ToNearestEven)
	if err != nil {
		return 0, false
	}
	v, _ := f.Float64()
	if math.IsInf(v, 0) {
		return 0, false
	}
	return v, true
}

func runLiteralCase(c *Ctx, idx int, cr *CaseResult) *CaseResult {
	d := docLiterals[idx]
	if d.Kind == "skip" {
		return cr
	}
	text := "rule R \"literal\" { when true then F.Any = " + d.Text + "; Retract(\"R\"); }"
	got, berr, rerr := runSink(text)
	cr.Evals++
	cr.set("literal_notations", d.Kind+":"+d.Text)
	cr.NonTrivial = append(cr.NonTrivial, "lit:"+d.Text)
	fail := ""
	switch d.Kind {
	case "error":
		if berr == nil {
			fail = fmt.Sprintf("invalid literal %s is accepted (value %s)", d.Text, got)
		}
	default:
		if berr != nil {
			fail = fmt.Sprintf("documented literal %s is rejected: %v", d.Text, berr)
			break
		}
		if rerr != nil {
			fail = fmt.Sprintf("documented literal %s fails at run time: %v", d.Text, rerr)
			break
		}
		want := ""
		switch d.Kind {
		case "int":
			b, ok := bigInt(d.Text)
			if !ok || !b.IsInt64() {
				cr.inconclusive("harness: literal table entry not parseable: " + d.Text)
				return cr
			}
			want = fmt.Sprintf("int64:%d", b.Int64())
		case "expr":
			want = fmt.Sprintf("int64:%d", d.Int)
		case "float":
			f, ok := bigFloat(d.Text)
			if !ok {
				cr.inconclusive("harness: literal table entry not parseable: " + d.Text)
				return cr
			}
			want = "float64:" + fmtFloat(f)
		case "string":
			want = fmt.Sprintf("string:%q", d.Str)
		case "bool":
			want = fmt.Sprintf("bool:%v", d.Bool)
		}
		if got != want {
			fail = fmt.Sprintf("literal %s denotes %s, the documentation says %s", d.Text, got, want)
		}
	}
	if fail != "" {
		for _, k := range c.OpenFindings() {
			if w, _ := k.Witness["literal"].(string); w == d.Text {
				c.ReportKnown(k)
				cr.inc("known_finding_hits")
				return cr
			}
		}
		cr.violate(fail, map[string]interface{}{"grl": text})
	}
	return cr
}

// runSink builds text (one rule storing into F.Any) and returns the rendered dynamic value.
func runSink(text string) (got string, buildErr, runErr error) {
	lib, err := BuildLib(text)
	if err != nil {
		return "", err, nil
	}
	kb, err := NewInstance(lib)
	if err != nil {
		return "", nil, err
	}
	st := GenState(rand.New(rand.NewSource(7)))
	f := st["F"].(*Fact)
	res := Run(kb, nil, st, RunCfg{MaxCycle: 3, NoSnap: true})
	if res.Panic != nil {
		return "", nil, fmt.Errorf("panic: %v", res.Panic)
	}
	if res.Err != nil {
		return "", nil, res.Err
	}
	switch v := f.Any.(type) {
	case int64:
		return fmt.Sprintf("int64:%d", v), nil, nil
	case float64:
		return "float64:" + fmtFloat(v), nil, nil
	case string:
		return fmt.Sprintf("string:%q", v), nil, nil
	case bool:
		return fmt.Sprintf("bool:%v", v), nil, nil
	}
	return fmt.Sprintf("%T:%v", f.Any, f.Any), nil, nil
}

// c05Known replays the witnesses of open findings that are not literal-table entries.
func c05Known(c *Ctx) {
	for _, k := range c.OpenFindings() {
		switch k.ID {
		case "K1":
			// `2 + 1 & 1`: published grouping 2 + (1 & 1) = 3; as-built (2 + 1) & 1 = 1
			got, berr, rerr := runSink(`rule R "k1" { when true then F.Any = 2 + 1 & 1; Retract("R"); }`)
			if berr == nil && rerr == nil && got == "int64:1" {
				c.ReportKnown(k)
			} else if got != "int64:3" {
				c.ExtraViolation(fmt.Sprintf("K1 witness `2 + 1 & 1` gives %s (published: int64:3, as-built: int64:1) build=%v run=%v", got, berr, rerr), nil)
			}
		case "K6":
			g1, b1, _ := runSink(`rule R "k6" { when true then F.Any = F.E+5; Retract("R"); }`)
			g2, b2, _ := runSink(`rule R "k6" { when true then F.Any = F.E + 5; Retract("R"); }`)
			if b2 != nil {
				c.ExtraViolation(fmt.Sprintf("`F.E + 5` is rejected: %v", b2), nil)
			} else if b1 != nil {
				c.ReportKnown(k)
			} else if g1 != g2 {
				c.ExtraViolation(fmt.Sprintf("`F.E+5` = %s but `F.E + 5` = %s", g1, g2), nil)
			}
		}
	}
}

func init() {
	register(&Check{
		ID: "C05", Level: "exploration",
		Rule: "typed random expression trees over all 15 operators x operand kinds (every int/uint width, float32/64, string, bool, time, values behind pointers, JSON members, top-level variables), built-ins and fixed/variadic fact methods, depth <=4 (quick) / <=6 (thorough), states free of overflow, division by zero and NaN (checked with big integers); each tree in 4 spellings (plain; tight spacing + comments; keyword case + literal notation; all together + !(atom)); one expression per knowledge base stored into a nil interface field (dynamic kind visible) and, when boolean, also used as a condition; the documented literal tables replayed verbatim with values computed by math/big; a deterministic function table (every math wrapper, Max/Min tuples of either sign with the extreme at every position, every string function over receivers with all kinds of edge whitespace, once on a literal and once on a fact field); non-trivial = distinct (expression, state) with depth >=3 and >=2 operator classes, or an escaped string literal, or a literal-table entry; the table also holds division of exact dividends up to 2^62 and a variadic ...interface{} method handed JSON arrays / objects; generator cases keep their PRNG index when the table grows",
		Assume: []string{"string + real rendering is unspecified (left out)", "reference interpreter groups by the published precedence table", "K1 signature: the engine's result equals the reference value of the tree regrouped with & at the additive level"},
		Cases:  func(t string) int { return tierN(4000, 250000)(t) + len(docLiterals) + 2*len(c05FuncCases) },
		Run:    runC05Case,
		Known:  c05Known,
	})
}
