#!/bin/bash
# usage: tools/mutant.sh <patch.diff> <check-id>... [-- tier]
# Applies a patch to a scratch copy of /repo (outside /repo and /verif), runs the given checks
# against it (evidence and replays go to a scratch directory), prints each exit code, cleans up.
. "$(dirname "$0")/../env.sh"
PATCH=$(readlink -f "$1"); shift
TIER=quick
IDS=()
while [ $# -gt 0 ]; do
  if [ "$1" = "--" ]; then TIER=$2; break; fi
  IDS+=("$1"); shift
done
SCR=$(mktemp -d /tmp/mutant.XXXXXX)
trap 'rm -rf "$SCR"; rm -f "$VERIF_DIR"/bin/*.$(printf "%s" "$SCR/repo" | cksum | cut -d" " -f1)*' EXIT
rsync -a --exclude .git /repo/ "$SCR/repo/"
if ! (cd "$SCR/repo" && patch -p1 -s < "$PATCH"); then echo "PATCH DOES NOT APPLY: $PATCH"; exit 3; fi
if ! (cd "$SCR/repo" && go build ./... ); then echo "MUTANT DOES NOT BUILD: $PATCH"; exit 3; fi
export VERIF_REPO="$SCR/repo" VERIF_EVIDENCE_DIR="$SCR/evidence" VERIF_REPLAY_DIR="$SCR/replays"
for id in "${IDS[@]}"; do
  "$VERIF_DIR/check" "$id" "$TIER" > "$SCR/out.$id" 2>&1
  rc=$?
  echo "mutant $(basename "$PATCH") check $id $TIER -> exit $rc $(grep -c '^VIOLATION' "$SCR/out.$id") violation lines"
  grep -m2 -A1 '^VIOLATION' "$SCR/out.$id" | cut -c1-400
  [ $rc -ne 1 ] && tail -3 "$SCR/out.$id" | cut -c1-300
done
