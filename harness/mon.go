package main

// Trace analysis and monitors. Analyze() turns the raw event list of one engine call into
// per-cycle records, replays the fired rules' action lists with the reference semantics, and
// each monitor is a pure function over that analysis. All monitors are prefix-closed: they
// judge a run up to the point where it stops or leaves the modelled domain.

import (
	"fmt"
	"sort"
	"strings"
)

// Violation is one refuting observation.
type Violation struct {
	Monitor string `json:"monitor"`
	Cycle   uint64 `json:"cycle,omitempty"`
	Rule    string `json:"rule,omitempty"`
	Msg     string `json:"msg"`
}

func (v Violation) String() string {
	return fmt.Sprintf("[%s] cycle %d rule %s: %s", v.Monitor, v.Cycle, v.Rule, v.Msg)
}

// CycleInfo is the analysed form of one cycle.
type CycleInfo struct {
	N         uint64
	Rec       *CycleRec
	EvalOrder []string
	Evals     map[string][]bool
	Execs     []string
	SetRules  []string
	Completed bool // an IsComplete call followed the firing (the action list returned without error)
	After     State
	Active    map[string]bool // expected active rules at the start of this cycle
	// reference replay of the fired rule's action list on Rec.Start
	RefAfter  State
	RefErrAt  int // index of the statement the reference says fails; -1 = none
	RefErrMsg string
	Ctl       *Control
	Domain    bool   // this cycle (or its action replay) is outside the modelled domain
	DomainMsg string
	ActStart  int64 // stamp of the moment the last ExecuteRuleEntry listener returned (the action list may start)
	ActSeqLo  int64 // stamp of the setrule event
	ActSeqHi  int64 // stamp of the iscomplete event (0 if none)
}

// Analysis of one engine call.
type Analysis struct {
	Prog       *Program
	Cycles     []*CycleInfo
	Stray      []string // events that fit nowhere (reported by the protocol monitor)
	Res        *RunResult
	Cfg        RunCfg
	StartSeq   int64
	DomainFrom int // index into Cycles from which the run is out of domain (-1 = never)
	Complete   bool
	Removed    map[string]bool // rules that are removed (never active)
}

// Analyze groups events by cycle and replays actions.
func Analyze(prog *Program, res *RunResult, cfg RunCfg, removed map[string]bool) *Analysis {
	a := &Analysis{Prog: prog, Res: res, Cfg: cfg, DomainFrom: -1, Removed: removed}
	var cur *CycleInfo
	recIdx := 0
	for _, e := range res.Events {
		if e.L != 0 {
			continue
		}
		switch e.Kind {
		case "start":
			a.StartSeq = e.Seq
		case "begin":
			cur = &CycleInfo{N: e.Cycle, Evals: map[string][]bool{}, RefErrAt: -1}
			if recIdx < len(res.Cycles) {
				cur.Rec = res.Cycles[recIdx]
				recIdx++
			}
			a.Cycles = append(a.Cycles, cur)
		case "eval":
			if cur == nil {
				a.Stray = append(a.Stray, e.String()+" before any BeginCycle")
				continue
			}
			if e.Cycle != cur.N {
				a.Stray = append(a.Stray, fmt.Sprintf("%s carries cycle %d inside cycle %d", e, e.Cycle, cur.N))
			}
			if len(cur.Execs) > 0 || len(cur.SetRules) > 0 {
				a.Stray = append(a.Stray, fmt.Sprintf("%s after the execution of cycle %d", e, cur.N))
			}
			cur.Evals[e.Rule] = append(cur.Evals[e.Rule], e.Cand)
			cur.EvalOrder = append(cur.EvalOrder, e.Rule)
		case "setrule":
			// bookkeeping of the engine on the data context: not a firing (the engine may name
			// the rule it is about to evaluate as well as the one it is about to execute)
		case "exec":
			if cur == nil {
				a.Stray = append(a.Stray, "ExecuteRuleEntry before any BeginCycle")
				continue
			}
			if e.Cycle != cur.N {
				a.Stray = append(a.Stray, fmt.Sprintf("%s carries cycle %d inside cycle %d", e, e.Cycle, cur.N))
			}
			// the ExecuteRuleEntry notification is the firing
			cur.Execs = append(cur.Execs, e.Rule)
			cur.SetRules = append(cur.SetRules, e.Rule)
			cur.ActSeqLo = e.Seq
		case "execdone":
			if cur != nil {
				cur.ActStart = e.Seq
			}
		case "iscomplete":
			// the first IsComplete after a firing marks the return of its action list; the
			// engine is free to ask at other moments too
			if cur == nil || len(cur.SetRules) == 0 || cur.Completed {
				continue
			}
			cur.Completed = true
			cur.ActSeqHi = e.Seq
			cur.After = res.After[uint64(e.Seq)]
		}
	}
	// an engine that does not ask IsComplete after a firing is still judged: the end of the
	// action list is then the next BeginCycle or the nil return
	for i, c := range a.Cycles {
		if len(c.SetRules) > 0 && !c.Completed {
			if i+1 < len(a.Cycles) {
				c.Completed = true
				if n := a.Cycles[i+1].Rec; n != nil {
					c.After = n.Start
					c.ActSeqHi = n.Seq
				}
			} else if res.Err == nil && !res.Aborted && res.Final != nil {
				c.Completed = true
				c.After = res.Final
			}
		}
	}
	// expected active sets and action replay
	retracted := map[string]bool{}
	for i, c := range a.Cycles {
		c.Active = map[string]bool{}
		for _, r := range prog.Rules {
			if !retracted[r.Name] && !removed[r.Name] {
				c.Active[r.Name] = true
			}
		}
		if c.Rec == nil {
			continue
		}
		for name := range c.Active {
			if t := c.Rec.Truth[name]; t.Domain {
				c.Domain = true
				c.DomainMsg = name + ": " + t.Msg
			}
		}
		if c.Domain && a.DomainFrom < 0 {
			a.DomainFrom = i
		}
		if len(c.SetRules) == 0 {
			continue
		}
		rule := prog.Rule(c.SetRules[0])
		if rule == nil {
			continue
		}
		st := CopyState(c.Rec.Start)
		ctl := &Control{Retracted: map[string]bool{}}
		for j, s := range rule.Then {
			if err := ref.Apply(s, st, ctl); err != nil {
				if isDomainErr(err) {
					c.Domain = true
					c.DomainMsg = fmt.Sprintf("action %d of %s: %v", j, rule.Name, err)
					if a.DomainFrom < 0 {
						a.DomainFrom = i
					}
				} else {
					c.RefErrAt = j
					c.RefErrMsg = err.Error()
				}
				break
			}
		}
		c.RefAfter = st
		c.Ctl = ctl
		if c.RefErrAt < 0 && c.Completed {
			for n := range ctl.Retracted {
				retracted[n] = true
			}
			if ctl.Complete {
				a.Complete = true
			}
		}
		if c.Domain {
			// later cycles start from facts the reference can not vouch for
			if a.DomainFrom < 0 {
				a.DomainFrom = i
			}
		}
	}
	return a
}

// judged returns the cycles the monitors may judge: all before the first out-of-domain one.
// The out-of-domain cycle itself may be judged for its evaluation phase only when its truths
// are in domain; to stay sound it is excluded entirely.
func (a *Analysis) judged() []*CycleInfo {
	if a.DomainFrom < 0 {
		return a.Cycles
	}
	return a.Cycles[:a.DomainFrom]
}

// evalJudgeable: cycle whose condition truths are all in domain (its action replay may not be).
func (a *Analysis) evalJudged() []*CycleInfo {
	if a.DomainFrom < 0 {
		return a.Cycles
	}
	n := a.DomainFrom
	c := a.Cycles[n]
	truthsOK := c.Rec != nil
	if truthsOK {
		for name := range c.Active {
			if c.Rec.Truth[name].Domain {
				truthsOK = false
			}
		}
	}
	if truthsOK {
		n++
	}
	return a.Cycles[:n]
}

// ---------------------------------------------------------------------------
// C01

// MonFiresOnlyWhenTrue: every executed rule is active and its condition holds, from scratch,
// on the facts of that moment; no rule is reported candidate on a false or failing condition.
func MonFiresOnlyWhenTrue(a *Analysis) []Violation {
	var vs []Violation
	for _, c := range a.evalJudged() {
		if c.Rec == nil {
			continue
		}
		for _, name := range c.Execs {
			if !c.Active[name] {
				vs = append(vs, Violation{"FiresOnlyWhenTrue", c.N, name, "fired although retracted or removed"})
				continue
			}
			t := c.Rec.Truth[name]
			if !t.Val || t.Err {
				vs = append(vs, Violation{"FiresOnlyWhenTrue", c.N, name, fmt.Sprintf("fired although its condition is %s on the current facts", truthText(t))})
			}
		}
		for name, flags := range c.Evals {
			t, known := c.Rec.Truth[name]
			if !known {
				continue
			}
			for _, f := range flags {
				if f && (!t.Val || t.Err) {
					vs = append(vs, Violation{"FiresOnlyWhenTrue", c.N, name, fmt.Sprintf("reported as candidate although its condition is %s on the current facts (stale value)", truthText(t))})
				}
			}
		}
	}
	return vs
}

func truthText(t Truth) string {
	if t.Err {
		return "failing (" + t.Msg + ")"
	}
	return fmt.Sprint(t.Val)
}

// ---------------------------------------------------------------------------
// C02

// MonCandidatesComplete: every active rule whose condition is true is reported as candidate;
// a nil return without Complete happens only at quiescence.
func MonCandidatesComplete(a *Analysis) []Violation {
	var vs []Violation
	cycles := a.evalJudged()
	for ci, c := range cycles {
		if c.Rec == nil {
			continue
		}
		// a cycle cut short (cancellation, error with RetErr) is judged only on what was evaluated
		full := ci < len(cycles)-1 || len(c.SetRules) > 0 || (a.Res.Err == nil && a.Res.Panic == nil && !a.Res.Aborted)
		for name := range c.Active {
			t := c.Rec.Truth[name]
			flags, evaluated := c.Evals[name]
			if !evaluated {
				if full && t.Val && !t.Err {
					vs = append(vs, Violation{"CandidatesComplete", c.N, name, "condition is true but the rule was not evaluated in this cycle"})
				}
				continue
			}
			if t.Val && !t.Err {
				any := false
				for _, f := range flags {
					any = any || f
				}
				if !any {
					vs = append(vs, Violation{"CandidatesComplete", c.N, name, "condition is true on the current facts but the rule was reported as not a candidate (stale value)"})
				}
			}
		}
	}
	// quiescence at return
	if a.Res.Err == nil && a.Res.Panic == nil && !a.Res.Aborted && !a.Complete && a.DomainFrom < 0 && len(a.Cycles) > 0 && !a.Cfg.Fetch {
		last := a.Cycles[len(a.Cycles)-1]
		if len(last.SetRules) == 0 {
			truth := TruthOf(a.Prog, CopyState(a.Res.Final))
			for name := range last.Active {
				t := truth[name]
				if t.Val && !t.Err && !t.Domain {
					vs = append(vs, Violation{"QuiescentAtReturn", last.N, name, "Execute returned nil but this rule's condition holds on the final facts"})
				}
			}
		} else if last.Completed {
			// returned nil right after a firing without Complete: only legal when the action called Complete
			vs = append(vs, Violation{"QuiescentAtReturn", last.N, last.SetRules[0], "Execute returned nil directly after a firing although Complete was not called"})
		}
	}
	return vs
}

// ---------------------------------------------------------------------------
// C03

// MonMaxSalience: at most one firing per cycle, of a rule with maximal salience in the
// reference conflict set.
func MonMaxSalience(a *Analysis) []Violation {
	var vs []Violation
	for _, c := range a.evalJudged() {
		if c.Rec == nil {
			continue
		}
		if len(c.Execs) > 1 || len(c.SetRules) > 1 {
			vs = append(vs, Violation{"MaxSalienceFires", c.N, strings.Join(c.Execs, ","), "more than one rule executed in one cycle"})
		}
		if len(c.Execs) == 0 {
			continue
		}
		fired := a.Prog.Rule(c.Execs[0])
		if fired == nil {
			vs = append(vs, Violation{"MaxSalienceFires", c.N, c.Execs[0], "executed rule is not part of the program"})
			continue
		}
		best, bestName := int64(0), ""
		first := true
		for name := range c.Active {
			t := c.Rec.Truth[name]
			if t.Val && !t.Err {
				r := a.Prog.Rule(name)
				if first || r.Sal > best {
					best, bestName, first = r.Sal, name, false
				}
			}
		}
		if !first && fired.Sal < best {
			vs = append(vs, Violation{"MaxSalienceFires", c.N, fired.Name, fmt.Sprintf("fired with salience %d although satisfied rule %s has salience %d", fired.Sal, bestName, best)})
		}
	}
	return vs
}

// MonActionsBeforeNextCycle: the whole action list is applied before the next cycle's
// evaluations start: no eval event inside an action window, and the facts seen at the next
// BeginCycle equal the reference application of the complete list.
func MonActionsBeforeNextCycle(a *Analysis) []Violation {
	var vs []Violation
	cyc := a.judged()
	for i, c := range cyc {
		if len(c.SetRules) == 0 || !c.Completed || c.Rec == nil || c.RefAfter == nil {
			continue
		}
		for _, e := range a.Res.Events {
			if e.L == 0 && e.Kind == "eval" && e.Seq > c.ActSeqLo && e.Seq < c.ActSeqHi {
				vs = append(vs, Violation{"ActionsBeforeNextCycle", c.N, c.SetRules[0], "a condition was evaluated while the action list was still running: " + e.String()})
			}
		}
		if c.RefErrAt >= 0 {
			continue
		}
		if i+1 < len(a.Cycles) && a.Cycles[i+1].Rec != nil {
			if d := DiffCanon(Canon(a.Cycles[i+1].Rec.Start), Canon(c.RefAfter)); d != "" {
				vs = append(vs, Violation{"ActionsBeforeNextCycle", c.N, c.SetRules[0], "facts at the next BeginCycle differ from the complete action list applied: " + d})
			}
		}
	}
	return vs
}

// ---------------------------------------------------------------------------
// C04

// MonReplayEqual: after each firing the whole fact universe equals the reference application
// of the fired rule's action list to the facts before it.
func MonReplayEqual(a *Analysis) []Violation {
	var vs []Violation
	for _, c := range a.judged() {
		if len(c.SetRules) == 0 || c.Rec == nil || c.RefAfter == nil {
			continue
		}
		var got State
		switch {
		case c.Completed:
			got = c.After
		default:
			// the action list ended with an error: compare the facts at return with the
			// reference prefix (only meaningful for the last cycle)
			got = a.Res.Final
		}
		if got == nil {
			continue
		}
		if c.RefErrAt >= 0 && c.Completed {
			vs = append(vs, Violation{"ReplayEqual", c.N, c.SetRules[0], fmt.Sprintf("statement %d must fail (%s) but the action list completed", c.RefErrAt, c.RefErrMsg)})
			continue
		}
		if d := DiffCanon(Canon(got), Canon(c.RefAfter)); d != "" {
			vs = append(vs, Violation{"ReplayEqual", c.N, c.SetRules[0], "facts after the firing differ from the reference replay (engine != reference): " + d})
		}
	}
	return vs
}

// ---------------------------------------------------------------------------
// C06

// MonProtocol checks the event protocol and the cycle budget.
func MonProtocol(a *Analysis) []Violation {
	var vs []Violation
	for _, s := range a.Stray {
		vs = append(vs, Violation{"Protocol", 0, "", s})
	}
	if a.Res.Blocked != "" {
		vs = append(vs, Violation{"Protocol", 0, "", "Execute did not return: " + a.Res.Blocked})
	} else if a.Res.Aborted {
		vs = append(vs, Violation{"Protocol", 0, "", fmt.Sprintf("run did not end: cycle %d begun with MaxCycle %d", len(a.Cycles), a.Cfg.MaxCycle)})
	}
	// no action-side effect outside the window opened by an ExecuteRuleEntry notification
	seenExec := false
	for _, e := range a.Res.Events {
		if e.L != 0 {
			continue
		}
		switch e.Kind {
		case "begin":
			seenExec = false
		case "exec":
			seenExec = true
		case "inc", "complete":
			if !seenExec {
				vs = append(vs, Violation{"Protocol", e.Cycle, "", "an action took effect (" + e.Kind + ") in a cycle that has not announced any ExecuteRuleEntry"})
				seenExec = true // report once per cycle
			}
		case "method":
			if (e.Key == "Mark" || e.Key == "Poke") && !seenExec {
				vs = append(vs, Violation{"Protocol", e.Cycle, "", "an action method (" + e.Key + ") ran in a cycle that has not announced any ExecuteRuleEntry"})
				seenExec = true
			}
		}
	}
	firings := 0
	for i, c := range a.Cycles {
		if c.N != uint64(i+1) {
			vs = append(vs, Violation{"Protocol", c.N, "", fmt.Sprintf("cycle number %d at position %d (must be consecutive from 1)", c.N, i+1)})
		}
		if len(c.SetRules) > 0 {
			firings++
		}
		if len(c.Execs) > 1 {
			vs = append(vs, Violation{"Protocol", c.N, "", "more than one ExecuteRuleEntry in one cycle"})
		}
		for _, name := range c.Execs {
			cand := false
			for _, f := range c.Evals[name] {
				cand = cand || f
			}
			if !cand {
				vs = append(vs, Violation{"Protocol", c.N, name, "executed without having been reported as candidate in the same cycle"})
			}
		}
		cut := a.cutShort(i)
		for name, flags := range c.Evals {
			if len(flags) > 1 {
				vs = append(vs, Violation{"Protocol", c.N, name, fmt.Sprintf("evaluated %d times in one cycle", len(flags))})
			}
			if !c.Active[name] {
				vs = append(vs, Violation{"Protocol", c.N, name, "evaluation reported for a rule that is retracted, removed or unknown"})
			}
		}
		if !cut && (a.DomainFrom < 0 || i <= a.DomainFrom) {
			for name := range c.Active {
				if len(c.Evals[name]) == 0 {
					vs = append(vs, Violation{"Protocol", c.N, name, "active rule not reported by EvaluateRuleEntry in this cycle"})
				}
			}
		}
		// candidate flag == reference truth
		if c.Rec != nil && (a.DomainFrom < 0 || i < a.DomainFrom) {
			for name, flags := range c.Evals {
				t, ok := c.Rec.Truth[name]
				if !ok || t.Domain {
					continue
				}
				want := t.Val && !t.Err
				for _, f := range flags {
					if f != want {
						vs = append(vs, Violation{"Protocol", c.N, name, fmt.Sprintf("candidate flag %v but the condition is %s", f, truthText(t))})
					}
				}
			}
		}
	}
	if uint64(firings) > a.Cfg.MaxCycle {
		vs = append(vs, Violation{"Protocol", 0, "", fmt.Sprintf("%d rules fired with MaxCycle %d", firings, a.Cfg.MaxCycle)})
	}
	// budget boundary: the cycle-limit error exactly when one more firing is needed
	if a.DomainFrom < 0 && a.Res.Panic == nil && !a.Res.Aborted && len(a.Cycles) > 0 {
		last := a.Cycles[len(a.Cycles)-1]
		// the cycle-limit error is recognised by its place in the run, not by its message: an
		// error returned from a cycle that fired nothing, not explained by the context or by
		// ReturnErrOnFailedRuleEvaluation
		if last.Rec != nil && len(last.SetRules) == 0 {
			need := false
			for name := range last.Active {
				t := last.Rec.Truth[name]
				if t.Val && !t.Err {
					need = true
				}
			}
			limitDue := need && uint64(firings) >= a.Cfg.MaxCycle
			explained := ctxEnded(a) || retErrEnded(a)
			if limitDue && a.Res.Err == nil && !explained {
				vs = append(vs, Violation{"Protocol", last.N, "", fmt.Sprintf("a further firing is needed after %d firings with MaxCycle %d but Execute returned nil instead of the cycle-limit error", firings, a.Cfg.MaxCycle)})
			}
			if a.Res.Err != nil && !limitDue && !explained {
				vs = append(vs, Violation{"Protocol", last.N, "", fmt.Sprintf("Execute returned an error after %d firings with MaxCycle %d although no firing was blocked by the budget (further firing needed: %v): %v", firings, a.Cfg.MaxCycle, need, a.Res.Err)})
			}
		}
	}
	// all listeners see the same sequence
	if a.Cfg.Listeners > 1 {
		seqs := make([][]string, a.Cfg.Listeners)
		for _, e := range a.Res.Events {
			if e.Kind == "begin" || e.Kind == "eval" || e.Kind == "exec" {
				if e.L < len(seqs) {
					seqs[e.L] = append(seqs[e.L], e.String())
				}
			}
		}
		for i := 1; i < len(seqs); i++ {
			if strings.Join(seqs[i], " ") != strings.Join(seqs[0], " ") {
				vs = append(vs, Violation{"Protocol", 0, "", fmt.Sprintf("listener %d saw a different event sequence than listener 0", i)})
			}
		}
	}
	return vs
}

func ctxEnded(a *Analysis) bool {
	return a.Cfg.Ctx != nil && a.Cfg.Ctx.Err() != nil
}

func retErrEnded(a *Analysis) bool {
	return a.Cfg.RetErr && a.Res.Err != nil
}

// ---------------------------------------------------------------------------
// C10

// MonControl: Retract and Complete have exactly their documented effect.
func MonControl(a *Analysis) []Violation {
	var vs []Violation
	cyc := a.judged()
	completeAt := -1
	for i, c := range cyc {
		if completeAt >= 0 {
			vs = append(vs, Violation{"ControlEffects", c.N, "", "a further cycle began after a firing that called Complete()"})
			break
		}
		// retracted rules must not be evaluated or fired; all others must be evaluated
		for name := range c.Evals {
			if a.Prog.Rule(name) != nil && !c.Active[name] && !a.Removed[name] {
				vs = append(vs, Violation{"ControlEffects", c.N, name, "evaluated although retracted earlier in this Execute call"})
			}
		}
		for _, name := range c.Execs {
			if a.Prog.Rule(name) != nil && !c.Active[name] && !a.Removed[name] {
				vs = append(vs, Violation{"ControlEffects", c.N, name, "fired although retracted earlier in this Execute call"})
			}
		}
		// (a cycle ended by any error is not judged here: what it must still report is C06's matter)
		cut := i == len(a.Cycles)-1 && (a.Res.Err != nil || a.Res.Panic != nil || a.Res.Aborted) && len(c.SetRules) == 0
		if !cut {
			for name := range c.Active {
				if len(c.Evals[name]) == 0 {
					vs = append(vs, Violation{"ControlEffects", c.N, name, "not evaluated although it was never retracted (another rule's Retract affected it?)"})
				}
			}
		}
		if c.Ctl != nil && c.Ctl.Complete && c.RefErrAt < 0 && len(c.SetRules) > 0 {
			if !c.Completed && ctxEnded(a) {
				continue // the firing was stopped by cancellation before its action list ran (C15)
			}
			completeAt = i
			if !c.Completed {
				vs = append(vs, Violation{"ControlEffects", c.N, c.SetRules[0], "action list with Complete() did not run to its end"})
			} else if c.After != nil && c.RefAfter != nil {
				if d := DiffCanon(Canon(c.After), Canon(c.RefAfter)); d != "" {
					vs = append(vs, Violation{"ControlEffects", c.N, c.SetRules[0], "facts after the completing firing differ from the entire action list applied: " + d})
				}
			}
		}
	}
	if completeAt >= 0 && a.DomainFrom < 0 {
		if completeAt != len(a.Cycles)-1 {
			// already reported above for judged cycles
		}
		if a.Res.Err != nil {
			vs = append(vs, Violation{"ControlEffects", cyc[completeAt].N, "", fmt.Sprintf("Execute returned %v after Complete()", a.Res.Err)})
		}
		// no event after the iscomplete of the completing cycle
		hi := cyc[completeAt].ActSeqHi
		for _, e := range a.Res.Events {
			if e.L == 0 && hi > 0 && e.Seq > hi && (e.Kind == "begin" || e.Kind == "eval" || e.Kind == "exec") {
				vs = append(vs, Violation{"ControlEffects", cyc[completeAt].N, "", "event after Complete(): " + e.String()})
				break
			}
		}
	}
	return vs
}

// ---------------------------------------------------------------------------
// helpers for non-triviality rules

// TruthFlips counts true->false and false->true changes of a rule's reference truth between
// consecutive judged cycles in which the rule was active.
func (a *Analysis) TruthFlips() (tf, ft int) {
	cyc := a.evalJudged()
	for i := 1; i < len(cyc); i++ {
		p, c := cyc[i-1], cyc[i]
		if p.Rec == nil || c.Rec == nil {
			continue
		}
		for name := range c.Active {
			if !p.Active[name] {
				continue
			}
			a0, a1 := p.Rec.Truth[name], c.Rec.Truth[name]
			v0, v1 := a0.Val && !a0.Err, a1.Val && !a1.Err
			if v0 && !v1 {
				tf++
			}
			if !v0 && v1 {
				ft++
			}
		}
	}
	return
}

// Firings returns the fired rule names in order.
func (a *Analysis) Firings() []string {
	var f []string
	for _, c := range a.Cycles {
		f = append(f, c.SetRules...)
	}
	return f
}

// ConflictShape describes the reference conflict set of a cycle: sorted saliences of satisfied
// active rules.
func (a *Analysis) ConflictShape(c *CycleInfo) []int64 {
	var s []int64
	if c.Rec == nil {
		return s
	}
	for name := range c.Active {
		t := c.Rec.Truth[name]
		if t.Val && !t.Err {
			s = append(s, a.Prog.Rule(name).Sal)
		}
	}
	sort.Slice(s, func(i, j int) bool { return s[i] < s[j] })
	return s
}

// limitDue: by the reference, the run ended at its budget (MaxCycle firings done and a rule due
// in the last, non-firing cycle): an error returned there is the cycle-limit error.
func (a *Analysis) limitDue() bool {
	if len(a.Cycles) == 0 {
		return false
	}
	last := a.Cycles[len(a.Cycles)-1]
	if last.Rec == nil || len(last.SetRules) > 0 {
		return false
	}
	firings := 0
	for _, c := range a.Cycles {
		if len(c.SetRules) > 0 {
			firings++
		}
	}
	if uint64(firings) < a.Cfg.MaxCycle {
		return false
	}
	for name := range last.Active {
		if t := last.Rec.Truth[name]; t.Val && !t.Err {
			return true
		}
	}
	return false
}

// cutShort: cycle i is the last one and may legitimately report fewer evaluations than there
// are active rules: it was ended by a panic, by the end of the context or by a failed condition
// under ReturnErrOnFailedRuleEvaluation. The cycle budget is no such reason - the cycle that
// ends in the cycle-limit error still reports every active rule.
func (a *Analysis) cutShort(i int) bool {
	if i != len(a.Cycles)-1 || len(a.Cycles[i].SetRules) > 0 {
		return false
	}
	if a.Res.Panic != nil || a.Res.Aborted {
		return true
	}
	return a.Res.Err != nil && (ctxEnded(a) || retErrEnded(a) || !a.limitDue())
}
