#!/bin/bash
# Re-runs the checks against every kept seeded change (no suite) and refreshes seeded/<id>/meta.json.
cd "$(dirname "$0")/.."
for d in seeded/*/; do
  id=$(basename "$d")
  prop=${id%%-*}
  extra=$(python3 -c "
import json,sys
m=json.load(open('$d/meta.json'))
s=set(m.get('caught_by',[]))|{'$prop'}
print(' '.join(sorted(s)))")
  echo "=== $id ($extra)"
  python3 tools/seed_eval.py "$d" "$id" "$prop" $extra --nosuite 2>&1 | grep -E "KEPT|REJECT" | cut -c1-200
done
