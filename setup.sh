#!/bin/bash
# Builds the harness binaries from files on disk (offline) and warms the build cache.
. "$(dirname "$0")/env.sh"
set -e
cd "$VERIF_DIR/harness"
mkdir -p "$VERIF_DIR/bin" "$VERIF_DIR/evidence" "$VERIF_DIR/replays"
TAG=$(printf '%s' "$VERIF_REPO" | cksum | cut -d' ' -f1)
go build -tags verif -o "$VERIF_DIR/bin/vcheck.$TAG" .
go build -race -tags verif -o "$VERIF_DIR/bin/vcheck.$TAG.race" .
echo "setup ok: $(go version)"
