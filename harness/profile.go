package main

// Workload profiles: generators of whole rule sets for the trace-monitor checks.

import (
	"math/rand"
	"reflect"
)

// TraceOpts selects what a generated rule set may contain.
type TraceOpts struct {
	MinRules, MaxRules int
	MinPool, MaxPool   int
	Control            bool // Retract / Complete
	Announce           bool // external change + Forget/Changed
	AnnounceDense      bool // every rule reads the externally changed value and announces its change
	Calls, Strs, Times bool
	DistinctSal        bool // pairwise distinct saliences (unique run)
	Faulty             bool // conditions / actions that may fail at run time
	Depth              int
	ManyTrue           bool // bias towards simultaneously satisfied rules (conflict sets)
	NoComplete         bool
	Marks              bool // every action list starts with T.Seq = T.Seq + 1; T.Mark(T.Seq)
	Counted            bool // conditions use counted methods on pool variables
	SelfRetract        bool // every rule ends by retracting itself (the run terminates)
}

func pickPool(r *rand.Rand, n int, strs, times bool) []VarSpec {
	var pool []VarSpec
	seen := map[string]bool{}
	add := func(v VarSpec) {
		if !seen[v.Text] {
			seen[v.Text] = true
			pool = append(pool, v)
		}
	}
	ints := catalogBy(func(v VarSpec) bool { return v.Ty == TInt })
	// at least two integer variables, one of them an int64
	i64 := catalogBy(func(v VarSpec) bool { return v.Ty == TInt && v.GK == reflect.Int64 && !v.Ind })
	add(i64[r.Intn(len(i64))])
	add(ints[r.Intn(len(ints))])
	for tries := 0; len(pool) < n && tries < 100; tries++ {
		v := catalog[r.Intn(len(catalog))]
		if v.Ty == TStr && !strs {
			continue
		}
		if v.Ty == TTime && !times {
			continue
		}
		add(v)
	}
	// selector variables travel with the variables that use them
	for _, v := range pool {
		switch v.Class {
		case "slice-var", "slice-ptr", "slice-expr", "map-expr":
			if v.Text == "F.Arr[F.Idx]" || v.Text == "F.PArr[F.Idx].X" || v.Class == "slice-expr" || v.Class == "map-expr" {
				for _, c := range catalog {
					if c.Text == "F.Idx" && r.Intn(2) == 0 {
						add(c)
					}
				}
			}
		case "map-var":
			for _, c := range catalog {
				if c.Text == "F.Key" && r.Intn(2) == 0 {
					add(c)
				}
			}
		}
	}
	return pool
}

// aliasPartners adds, for pool variables that have another spelling of the same storage, that
// spelling too (J.age / J["age"], F.Arr[0] / F.Arr[F.Idx], ...), so that writes through one
// name and reads through the other occur.
func aliasPartners(r *rand.Rand, pool []VarSpec) []VarSpec {
	partner := map[string]string{
		"J.age": `J["age"]`, `J["age"]`: "J.age", "J.obj.n": `J.obj["n"]`, `J.obj["n"]`: "J.obj.n",
		"F.Arr[0]": "F.Arr[F.Idx]", "F.Arr[1]": "F.Arr[F.Idx]", "F.Arr[F.Idx]": "F.Arr[0]",
		`F.M["k1"]`: "F.M[F.Key]", `F.M["k2"]`: "F.M[F.Key]", "F.M[F.Key]": `F.M["k1"]`,
		"F.PArr[0].X": "F.PArr[F.Idx].X", "F.PArr[F.Idx].X": "F.PArr[0].X",
		"F.PArr[0].Sub.V": "F.PArr[F.Idx].Sub.V", "F.PArr[F.Idx].Sub.V": "F.PArr[0].Sub.V",
		`F.MP["a"].Sub.V`: "F.MP[F.MKey].Sub.V", "F.MP[F.MKey].Sub.V": `F.MP["a"].Sub.V`, `F.MP["a"].X`: `F.MP["a"].Sub.V`,
		"F.Arr[F.Idx + 1]": "F.Arr[1]", "F.Idx": "F.Arr[F.Idx + 1]", `F.M["k" + (F.Idx + 1)]`: `F.M["k1"]`,
	}
	have := map[string]bool{}
	for _, v := range pool {
		have[v.Text] = true
	}
	for _, v := range pool {
		if p, ok := partner[v.Text]; ok && !have[p] && r.Intn(2) == 0 {
			for _, c := range catalog {
				if c.Text == p {
					pool = append(pool, c)
					have[p] = true
				}
			}
		}
	}
	return pool
}

// bumpSeq / mark statements
func stmtBumpSeq() *Stmt {
	return Assign(P("T.Seq"), "=", Bin("+", TInt, VarE(P("T.Seq"), TInt, reflect.Int64), LitI(1)))
}
func stmtMark() *Stmt {
	return &Stmt{Kind: "call", Call: CallE(tool(), "Mark", TAny, reflect.Invalid, VarE(P("T.Seq"), TInt, reflect.Int64))}
}
const peekKey = "main hall"
const peekKText = `T.PeekK("main hall")`

func stmtPoke(r *rand.Rand) *Stmt {
	// mostly the same text in every rule (a statement shared between rules), sometimes another one
	mod := int64(3)
	if r.Intn(3) == 0 {
		mod = int64(r.Intn(3)) + 2
	}
	arg := Bin("%", TInt, VarE(P("T.Seq"), TInt, reflect.Int64), LitI(mod))
	return &Stmt{Kind: "call", Call: CallE(tool(), "Poke", TAny, reflect.Invalid, arg)}
}

// GenTraceProgram draws a rule set.
func GenTraceProgram(r *rand.Rand, o TraceOpts) *Program {
	nr := o.MinRules + r.Intn(o.MaxRules-o.MinRules+1)
	np := o.MinPool + r.Intn(o.MaxPool-o.MinPool+1)
	pool := aliasPartners(r, pickPool(r, np, o.Strs, o.Times))
	depth := o.Depth
	if depth == 0 {
		depth = 3
	}
	g := &Gen{R: r, Pool: pool, Calls: o.Calls, Strs: o.Strs, Times: o.Times, Faulty: o.Faulty}
	// shared boolean sub-expressions (the same *Expr object is used in several rules, so the
	// printed text is identical and the engine shares the node)
	ns := 1 + r.Intn(3)
	for i := 0; i < ns; i++ {
		g.Shared = append(g.Shared, g.guard(pool, o))
	}
	prog := &Program{}
	usedSal := map[int64]bool{}
	for i := 0; i < nr; i++ {
		rule := &Rule{Name: RuleName(i), Desc: []string{"", "d", "some description", "desc with 'quote'"}[r.Intn(4)]}
		rule.HasSal, rule.Sal = g.Salience()
		if o.DistinctSal {
			for usedSal[rule.Sal] {
				rule.HasSal, rule.Sal = true, int64(r.Intn(2001))-1000
			}
			usedSal[rule.Sal] = true
		}
		// condition
		switch k := r.Intn(10); {
		case k < 4:
			rule.When = g.guard(pool, o)
		case k < 6:
			rule.When = Bin([]string{"&&", "||"}[r.Intn(2)], TBool, g.guard(pool, o), g.Expr(TBool, depth-1))
		case k < 7:
			rule.When = Bin([]string{"&&", "||"}[r.Intn(2)], TBool, g.Expr(TBool, depth-1), g.guard(pool, o))
		default:
			rule.When = g.Expr(TBool, depth)
		}
		if o.ManyTrue && r.Intn(2) == 0 {
			rule.When = Bin("||", TBool, rule.When, g.guard(pool, o))
		}
		if o.Announce && (r.Intn(3) == 0 || o.AnnounceDense) {
			var peek *Expr
			switch r.Intn(3) {
			case 0:
				peek = CallE(tool(), "Peek", TInt, reflect.Int64)
			case 1:
				peek = VarE(P("T.St"), TInt, reflect.Int64)
			default:
				// a call text with a blank inside a string argument, spelled exactly as Forget names it
				peek = CallE(tool(), "PeekK", TInt, reflect.Int64, LitS(peekKey))
				peek.Fix = peekKText
			}
			c := Bin([]string{"==", "!=", "<", ">"}[r.Intn(4)], TBool, peek, LitI(int64(r.Intn(4))))
			rule.When = Bin([]string{"&&", "||"}[r.Intn(2)], TBool, c, rule.When)
		}
		// actions
		if o.Marks {
			rule.Then = append(rule.Then, stmtBumpSeq(), stmtMark())
		}
		ns := 1 + r.Intn(3)
		for j := 0; j < ns; j++ {
			w := writable(pool)
			v := w[r.Intn(len(w))]
			if r.Intn(3) == 0 && v.Ty == TInt && v.GK == reflect.Int64 && !v.JSON {
				// progress statement: V = V + 1 (makes guards flip)
				src := v.E()
				if v.Ind {
					src.GK = int(reflect.Ptr)
				}
				rule.Then = append(rule.Then, Assign(v.Mk(), "=", Bin("+", TInt, src, LitI(int64(r.Intn(2))+1))))
			} else {
				rule.Then = append(rule.Then, g.AssignTo(v, depth-1))
			}
		}
		// growth gadget: the condition reads the size of a map, the action adds a key to it
		// (what is remembered about the container must be dropped by the write of an element)
		if r.Intn(8) == 0 {
			mlen := func() *Expr { return CallE(VarE(P("F.M"), TAny, reflect.Map), "Len", TInt, reflect.Int) }
			c := Bin("<", TBool, mlen(), LitI(int64(3+r.Intn(3))))
			rule.When = Bin([]string{"&&", "||"}[r.Intn(2)], TBool, c, rule.When)
			rule.Then = append(rule.Then, Assign(P("F.M", Bin("+", TStr, LitS("g"), mlen())), "=", LitI(int64(r.Intn(5)))))
		}
		if o.Announce && (r.Intn(3) == 0 || o.AnnounceDense) {
			if !o.Marks {
				rule.Then = append(rule.Then, stmtBumpSeq())
			}
			rule.Then = append(rule.Then, stmtPoke(r),
				&Stmt{Kind: "changed", Name: "T.St"},
				&Stmt{Kind: []string{"forget", "changed"}[r.Intn(2)], Name: "T.Peek()"},
				&Stmt{Kind: []string{"forget", "changed"}[r.Intn(2)], Name: peekKText})
		}
		if o.Control {
			switch k := r.Intn(12); {
			case k < 4:
				rule.Then = append(rule.Then, &Stmt{Kind: "retract", Name: rule.Name})
			case k < 6:
				rule.Then = insertAt(r, rule.Then, &Stmt{Kind: "retract", Name: RuleName(r.Intn(nr))}, o.Marks)
			case k < 7:
				rule.Then = insertAt(r, rule.Then, &Stmt{Kind: "retract", Name: []string{"Nope", "r", "R 1", "Deleted_R", ""}[r.Intn(5)]}, o.Marks)
			case k < 8:
				rule.Then = insertAt(r, rule.Then, &Stmt{Kind: "retract", Name: RuleName(r.Intn(nr))}, o.Marks)
				rule.Then = insertAt(r, rule.Then, &Stmt{Kind: "retract", Name: RuleName(r.Intn(nr))}, o.Marks)
			case k < 9 && !o.NoComplete:
				rule.Then = insertAt(r, rule.Then, &Stmt{Kind: "complete"}, o.Marks)
			}
		} else if r.Intn(3) == 0 {
			rule.Then = append(rule.Then, &Stmt{Kind: "retract", Name: rule.Name})
		}
		if o.SelfRetract {
			has := false
			for _, st := range rule.Then {
				if st.Kind == "retract" && st.Name == rule.Name {
					has = true
				}
			}
			if !has {
				rule.Then = append(rule.Then, &Stmt{Kind: "retract", Name: rule.Name})
			}
		}
		prog.Rules = append(prog.Rules, rule)
	}
	return prog
}

func insertAt(r *rand.Rand, l []*Stmt, s *Stmt, marks bool) []*Stmt {
	lo := 0
	if marks && len(l) >= 2 {
		lo = 2
	}
	pos := lo + r.Intn(len(l)-lo+1)
	l = append(l, nil)
	copy(l[pos+1:], l[pos:])
	l[pos] = s
	return l
}

func writable(pool []VarSpec) []VarSpec {
	var w []VarSpec
	for _, v := range pool {
		if v.W {
			w = append(w, v)
		}
	}
	return w
}

// guard: a comparison of a pool variable with a small constant or another pool variable.
func (g *Gen) guard(pool []VarSpec, o TraceOpts) *Expr {
	r := g.R
	for tries := 0; tries < 20; tries++ {
		v := pool[r.Intn(len(pool))]
		e := v.E()
		if v.Ind {
			e.GK = int(reflect.Ptr)
		}
		op := []string{"<", "<=", ">", ">=", "==", "!="}[r.Intn(6)]
		switch v.Ty {
		case TInt, TUint:
			if o.Counted && r.Intn(2) == 0 && argOK(e) {
				e = CallE(tool(), "Cnt", TInt, reflect.Int64, e)
				return Bin(op, TBool, e, LitI(int64(r.Intn(12))))
			}
			if r.Intn(4) == 0 {
				if w, ok := g.pick(TInt, false); ok {
					we := w.E()
					if w.Ind {
						we.GK = int(reflect.Ptr)
					}
					return Bin(op, TBool, e, we)
				}
			}
			return Bin(op, TBool, e, LitI(int64(r.Intn(7))-1))
		case TFloat:
			return Bin(op, TBool, e, []*Expr{LitF(0.5), LitI(1), LitF(-0.25), LitI(0), LitF(2.5)}[r.Intn(5)])
		case TStr:
			if r.Intn(2) == 0 {
				return Bin([]string{"==", "!=", "<", ">"}[r.Intn(4)], TBool, e, g.strLit())
			}
			return CallE(e, []string{"Contains", "HasPrefix", "HasSuffix"}[r.Intn(3)], TBool, reflect.Bool, LitS([]string{"a", "b", "k", ""}[r.Intn(4)]))
		case TBool:
			if r.Intn(2) == 0 {
				return e
			}
			return Not(e)
		case TTime:
			if w, ok := g.pick(TTime, false); ok {
				return Bin(op, TBool, e, w.E())
			}
		}
	}
	return LitB(true)
}
