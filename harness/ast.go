package main

// The harness's own rule AST and its GRL printer. The harness owns the meaning of every
// generated program, so it never asks the engine what a rule means.

import (
	"fmt"
	"math"
	"math/rand"
	"reflect"
	"strconv"
	"strings"
	"unicode/utf8"
)

// Ty is the static family of an expression.
type Ty int

const (
	TInt Ty = iota
	TUint
	TFloat
	TStr
	TBool
	TTime
	TAny // opaque (interface / pointer results used only as receivers)
)

func (t Ty) String() string {
	return [...]string{"int", "uint", "float", "string", "bool", "time", "any"}[t]
}

// Expr is a typed expression tree.
type Expr struct {
	Op   string  `json:"op"` // "lit" "var" "not" "call" or the binary operator
	Ty   Ty      `json:"ty"`
	Lit  *Val    `json:"lit,omitempty"`
	Path *Path   `json:"path,omitempty"`
	L    *Expr   `json:"l,omitempty"`
	R    *Expr   `json:"r,omitempty"`
	Recv *Expr   `json:"recv,omitempty"` // receiver of a method call; nil = built-in function
	Fn   string  `json:"fn,omitempty"`
	Args []*Expr `json:"args,omitempty"`
	Par  int     `json:"par,omitempty"` // number of redundant parenthesis pairs to print around it
	GK   int     `json:"gk,omitempty"`  // reflect.Kind of the value when it is a variable / method result (0 = arithmetic result kind)
	Fix  string  `json:"fix,omitempty"` // fixed spelling (printed verbatim): the text a Forget/Changed names must match the source
}

// Step is one path step: a member name, or a selector expression.
type Step struct {
	F   string `json:"f,omitempty"`
	Sel *Expr  `json:"sel,omitempty"`
}

// Path addresses a piece of fact data from a data-context root.
type Path struct {
	Root  string `json:"root"`
	Steps []Step `json:"steps,omitempty"`
}

// Stmt is one statement of a then-list.
type Stmt struct {
	Kind   string `json:"kind"` // assign | call | retract | complete | forget | changed
	Target *Path  `json:"target,omitempty"`
	AOp    string `json:"aop,omitempty"` // = += -= *= /=
	RHS    *Expr  `json:"rhs,omitempty"`
	Call   *Expr  `json:"call,omitempty"`
	Name   string `json:"name,omitempty"` // Retract target, or the text given to Forget/Changed
}

// Rule is one rule.
type Rule struct {
	Name   string  `json:"name"`
	Desc   string  `json:"desc"`
	HasSal bool    `json:"has_sal"`
	Sal    int64   `json:"sal"`
	When   *Expr   `json:"when"`
	Then   []*Stmt `json:"then"`
}

// Program is a rule set.
type Program struct {
	Rules []*Rule `json:"rules"`
}

func (p *Program) Rule(name string) *Rule {
	for _, r := range p.Rules {
		if r.Name == name {
			return r
		}
	}
	return nil
}

// ---------------------------------------------------------------------------
// constructors

func LitI(i int64) *Expr   { return &Expr{Op: "lit", Ty: TInt, Lit: &Val{K: TInt, I: i}} }
func LitF(f float64) *Expr { return &Expr{Op: "lit", Ty: TFloat, Lit: &Val{K: TFloat, F: f}} }
func LitS(s string) *Expr  { return &Expr{Op: "lit", Ty: TStr, Lit: &Val{K: TStr, S: s}} }
func LitB(b bool) *Expr    { return &Expr{Op: "lit", Ty: TBool, Lit: &Val{K: TBool, B: b}} }
func Bin(op string, ty Ty, l, r *Expr) *Expr {
	return &Expr{Op: op, Ty: ty, L: l, R: r}
}
func Not(e *Expr) *Expr { return &Expr{Op: "not", Ty: TBool, L: e} }
func VarE(p *Path, ty Ty, gk reflect.Kind) *Expr {
	return &Expr{Op: "var", Ty: ty, Path: p, GK: int(gk)}
}
func CallE(recv *Expr, fn string, ty Ty, gk reflect.Kind, args ...*Expr) *Expr {
	return &Expr{Op: "call", Ty: ty, Recv: recv, Fn: fn, Args: args, GK: int(gk)}
}

// P builds a path from a dotted text with optional constant selectors, e.g. P("F.In.X"),
// P("F.Arr", 0), P("F.M", "k").
func P(dotted string, sels ...interface{}) *Path {
	parts := strings.Split(dotted, ".")
	p := &Path{Root: parts[0]}
	for _, f := range parts[1:] {
		p.Steps = append(p.Steps, Step{F: f})
	}
	for _, s := range sels {
		switch v := s.(type) {
		case int:
			p.Steps = append(p.Steps, Step{Sel: LitI(int64(v))})
		case int64:
			p.Steps = append(p.Steps, Step{Sel: LitI(v)})
		case string:
			if strings.HasPrefix(v, ".") {
				p.Steps = append(p.Steps, Step{F: v[1:]})
			} else {
				p.Steps = append(p.Steps, Step{Sel: LitS(v)})
			}
		case *Expr:
			p.Steps = append(p.Steps, Step{Sel: v})
		}
	}
	return p
}

func Assign(p *Path, aop string, rhs *Expr) *Stmt {
	return &Stmt{Kind: "assign", Target: p, AOp: aop, RHS: rhs}
}

// ---------------------------------------------------------------------------
// printing

// Style decides every spelling choice the grammar leaves open. A nil rng gives the plain style.
type Style struct {
	R          *rand.Rand
	Spacing    bool // random whitespace and comments at token boundaries
	KwCase     bool // random keyword / boolean case
	LitNot     bool // random literal notations
	Redundant  bool // random redundant parentheses
	NotParen   bool // randomly print !atom as !(atom)
	AmpAsBuilt bool // parenthesise by the as-built table (& at the additive level) instead of the published one
	AmpSafe    bool // always parenthesise & sub-expressions and their binary operands (keeps K1 out of other checks)
	Tight      bool // allow no space around binary operators (except where the lexer would merge tokens)
}

// PlainStyle is canonical printing (single spaces, decimal literals, lower-case keywords).
var PlainStyle = &Style{AmpSafe: true}

func (s *Style) rnd(n int) int {
	if s == nil || s.R == nil {
		return 0
	}
	return s.R.Intn(n)
}

// ws returns optional or mandatory separation between two tokens.
func (s *Style) ws(mandatory bool) string {
	if s == nil || !s.Spacing || s.R == nil {
		if mandatory {
			return " "
		}
		return ""
	}
	switch s.R.Intn(9) {
	case 0:
		if mandatory {
			return " "
		}
		return ""
	case 1:
		return " "
	case 2:
		return "  "
	case 3:
		return "\n\t"
	case 4:
		return " /* c */ "
	case 5:
		return " // line comment\n"
	case 6:
		return "\t"
	case 7:
		return "/**/"
	default:
		return " "
	}
}

func (s *Style) kw(w string) string {
	if s == nil || !s.KwCase || s.R == nil {
		return w
	}
	switch s.R.Intn(4) {
	case 0:
		return w
	case 1:
		return strings.ToUpper(w)
	case 2:
		return strings.ToUpper(w[:1]) + w[1:]
	default:
		b := []byte(w)
		for i := range b {
			if s.R.Intn(2) == 0 {
				b[i] = byte(strings.ToUpper(string(b[i]))[0])
			}
		}
		return string(b)
	}
}

var publishedPrec = map[string]int{"*": 5, "/": 5, "%": 5, "&": 5, "+": 4, "-": 4, "|": 4, "==": 3, "!=": 3, "<": 3, "<=": 3, ">": 3, ">=": 3, "&&": 2, "||": 1}

func (s *Style) prec(op string) int {
	if s != nil && s.AmpAsBuilt && op == "&" {
		return 4
	}
	return publishedPrec[op]
}

func isBinOp(op string) bool { _, ok := publishedPrec[op]; return ok }

// PrintInt renders an integer literal in a notation chosen by the style.
func (s *Style) PrintInt(i int64) string {
	if s == nil || !s.LitNot || s.R == nil {
		return strconv.FormatInt(i, 10)
	}
	neg := ""
	var mag uint64
	if i < 0 {
		neg = "-"
		mag = uint64(-(i + 1)) + 1
	} else {
		mag = uint64(i)
	}
	switch s.R.Intn(4) {
	case 0:
		return neg + "0x" + strconv.FormatUint(mag, 16)
	case 1:
		return neg + "0X" + strings.ToUpper(strconv.FormatUint(mag, 16))
	case 2:
		if mag == 0 {
			return "0"
		}
		return neg + "0" + strconv.FormatUint(mag, 8)
	default:
		return neg + strconv.FormatUint(mag, 10)
	}
}

// PrintFloat renders a float literal that denotes exactly f in a notation chosen by the style.
func (s *Style) PrintFloat(f float64) string {
	neg := ""
	if f < 0 || (f == 0 && math.Signbit(f)) {
		neg = "-"
		f = -f
	}
	plain := strconv.FormatFloat(f, 'f', -1, 64)
	if !strings.Contains(plain, ".") {
		plain += ".0"
	}
	if s == nil || !s.LitNot || s.R == nil {
		return neg + plain
	}
	switch s.R.Intn(6) {
	case 0: // exponent form
		e := strconv.FormatFloat(f, 'e', -1, 64)
		if s.R.Intn(2) == 0 {
			e = strings.ToUpper(e)
		}
		return neg + e
	case 1: // leading-dot form when 0 < f < 1
		if f > 0 && f < 1 && strings.HasPrefix(plain, "0.") {
			return neg + plain[1:]
		}
		return neg + plain
	case 2: // hex float
		h := strconv.FormatFloat(f, 'x', -1, 64) // 0x1.8p+01
		if s.R.Intn(2) == 0 {
			h = "0X" + strings.ToUpper(h[2:])
		}
		return neg + h
	case 3: // exponent without fraction when integral and small
		if f == math.Trunc(f) && f < 1e15 {
			return neg + strconv.FormatFloat(f, 'f', 0, 64) + "e0"
		}
		return neg + plain
	case 4: // trailing zeros
		return neg + plain + "00"
	default:
		return neg + plain
	}
}

// PrintString renders a string literal denoting exactly str.
func (s *Style) PrintString(str string) string {
	quote := byte('"')
	rich := s != nil && s.LitNot && s.R != nil
	if rich && s.R.Intn(2) == 0 {
		quote = '\''
	}
	var b strings.Builder
	b.WriteByte(quote)
	for i := 0; i < len(str); {
		r, w := utf8.DecodeRuneInString(str[i:])
		c := str[i]
		switch {
		case r == utf8.RuneError && w == 1:
			// a byte that is not UTF-8: only expressible as a byte escape
			if rich && s.R.Intn(2) == 0 {
				fmt.Fprintf(&b, `\%03o`, c)
			} else {
				fmt.Fprintf(&b, `\x%02x`, c)
			}
		case c == quote:
			b.WriteByte('\\')
			b.WriteByte(quote)
		case c == '\\':
			b.WriteString(`\\`)
		case c == '\n':
			if rich && s.R.Intn(3) == 0 {
				b.WriteByte('\n') // raw newline is documented as legal
			} else {
				b.WriteString(`\n`)
			}
		case c == '\t':
			if rich && s.R.Intn(2) == 0 {
				b.WriteByte('\t')
			} else {
				b.WriteString(`\t`)
			}
		case c == '\r':
			b.WriteString(`\r`)
		case c < 0x20 || c == 0x7f:
			switch s.rnd(3) {
			case 0:
				fmt.Fprintf(&b, `\x%02x`, c)
			case 1:
				fmt.Fprintf(&b, `\%03o`, c)
			default:
				fmt.Fprintf(&b, `\u%04x`, c)
			}
		case r >= 0x80:
			if rich && s.R.Intn(4) == 0 {
				// byte escapes of the UTF-8 encoding denote the same string
				for k := 0; k < w; k++ {
					if s.R.Intn(2) == 0 {
						fmt.Fprintf(&b, `\x%02x`, str[i+k])
					} else {
						fmt.Fprintf(&b, `\%03o`, str[i+k])
					}
				}
			} else if rich && s.R.Intn(3) == 0 {
				if r > 0xffff {
					fmt.Fprintf(&b, `\U%08x`, r)
				} else {
					fmt.Fprintf(&b, `\u%04x`, r)
				}
			} else {
				b.WriteString(str[i : i+w])
			}
		default:
			if rich && s.R.Intn(12) == 0 {
				switch s.R.Intn(3) {
				case 0:
					fmt.Fprintf(&b, `\x%02x`, c)
				case 1:
					fmt.Fprintf(&b, `\%03o`, c)
				default:
					fmt.Fprintf(&b, `\u%04x`, c)
				}
			} else {
				b.WriteByte(c)
			}
		}
		i += w
	}
	b.WriteByte(quote)
	return b.String()
}

func (s *Style) PrintLit(v *Val) string {
	switch v.K {
	case TInt:
		return s.PrintInt(v.I)
	case TFloat:
		return s.PrintFloat(v.F)
	case TStr:
		return s.PrintString(v.S)
	case TBool:
		if v.B {
			return s.kw("true")
		}
		return s.kw("false")
	}
	return "nil"
}

func (s *Style) PrintPath(p *Path) string {
	var b strings.Builder
	b.WriteString(p.Root)
	for _, st := range p.Steps {
		if st.Sel != nil {
			b.WriteString(s.ws(false))
			b.WriteString("[")
			b.WriteString(s.ws(false))
			b.WriteString(s.PrintExpr(st.Sel))
			b.WriteString(s.ws(false))
			b.WriteString("]")
		} else {
			b.WriteString(s.ws(false))
			b.WriteString(".")
			b.WriteString(s.ws(false))
			b.WriteString(st.F)
		}
	}
	return b.String()
}

// PrintExpr renders an expression with the minimal parentheses the style's precedence table
// requires, plus the redundant ones requested.
func (s *Style) PrintExpr(e *Expr) string {
	t := s.printExpr(e)
	n := e.Par
	for i := 0; i < n; i++ {
		t = "(" + s.ws(false) + t + s.ws(false) + ")"
	}
	return t
}

func (s *Style) isAtomForm(e *Expr) bool {
	return (e.Op == "lit" || e.Op == "var" || e.Op == "call" || e.Op == "member") && e.Par == 0
}

func (s *Style) printExpr(e *Expr) string {
	if e.Fix != "" {
		return e.Fix
	}
	switch e.Op {
	case "lit":
		return s.PrintLit(e.Lit)
	case "var":
		return s.PrintPath(e.Path)
	case "not":
		if s.isAtomForm(e.L) && (e.L.Op != "lit" || e.L.Ty == TBool) {
			inner := s.PrintExpr(e.L)
			if s != nil && s.NotParen && s.R != nil && s.R.Intn(3) == 0 {
				return "!" + s.ws(false) + "(" + s.ws(false) + inner + s.ws(false) + ")"
			}
			return "!" + s.ws(false) + inner
		}
		return "!" + s.ws(false) + "(" + s.ws(false) + s.PrintExpr(e.L) + s.ws(false) + ")"
	case "member":
		// member of a method result: T.Ptr(1, F.A).X
		return s.printExpr(e.L) + s.ws(false) + "." + s.ws(false) + e.Fn
	case "call":
		var b strings.Builder
		if e.Recv != nil {
			// a receiver is an atom in the grammar: it can not be parenthesised
			b.WriteString(s.printExpr(e.Recv))
			b.WriteString(s.ws(false))
			b.WriteString(".")
			b.WriteString(s.ws(false))
		}
		b.WriteString(e.Fn)
		b.WriteString(s.ws(false))
		b.WriteString("(")
		for i, a := range e.Args {
			if i > 0 {
				b.WriteString(s.ws(false))
				b.WriteString(",")
			}
			b.WriteString(s.ws(false))
			b.WriteString(s.PrintExpr(a))
		}
		b.WriteString(s.ws(false))
		b.WriteString(")")
		return b.String()
	}
	// binary
	p := s.prec(e.Op)
	ls, rs := s.PrintExpr(e.L), s.PrintExpr(e.R)
	lneed := isBinOp(e.L.Op) && e.L.Par == 0 && s.prec(e.L.Op) < p
	rneed := isBinOp(e.R.Op) && e.R.Par == 0 && s.prec(e.R.Op) <= p
	if s != nil && s.AmpSafe {
		if e.Op == "&" {
			lneed = lneed || (isBinOp(e.L.Op) && e.L.Par == 0)
			rneed = rneed || (isBinOp(e.R.Op) && e.R.Par == 0)
		}
		if e.L.Op == "&" && e.L.Par == 0 {
			lneed = true
		}
		if e.R.Op == "&" && e.R.Par == 0 {
			rneed = true
		}
	}
	if lneed {
		ls = "(" + s.ws(false) + ls + s.ws(false) + ")"
	}
	if rneed {
		rs = "(" + s.ws(false) + rs + s.ws(false) + ")"
	}
	// separation: tight only when allowed and safe for the lexer
	sepL, sepR := " ", " "
	if s != nil && s.Spacing && s.R != nil {
		sepL, sepR = s.ws(false), s.ws(false)
		if !s.Tight {
			if sepL == "" {
				sepL = " "
			}
			if sepR == "" {
				sepR = " "
			}
		}
		if e.Op == "/" && (strings.HasPrefix(sepR, "/") || sepR == "") && (sepR != "" || strings.HasPrefix(rs, "/")) {
			sepR = " " + sepR // "/" directly followed by a comment would read as "//"
		}
		if strings.HasSuffix(ls+sepL, "/") && (e.Op == "/" || e.Op == "*") {
			sepL += " "
		}
		if sepL == "" && !tightSafeLeft(ls, e.Op) {
			sepL = " "
		}
		if sepR == "" && !tightSafeRight(e.Op, rs) {
			sepR = " "
		}
		if sepL == "" && sepR == "" && (e.Op == "+" || e.Op == "-") && !tightSafeBoth(ls, e.Op, rs) {
			sepL = " "
		}
	}
	return ls + sepL + e.Op + sepR + rs
}

// tightSafeLeft: may `left` be followed by op without a separator? Not when the two would lex
// differently: "a/" + "/b" is fine, but "x /" followed by "*" starts a comment; "-" before a
// negative literal is fine ("a--1" lexes MINUS MINUS 1).
func tightSafeLeft(left, op string) bool {
	if left == "" {
		return false
	}
	last := left[len(left)-1]
	switch {
	case last == '/' || last == '*':
		return false
	case (op == "&" || op == "&&") && last == '&':
		return false
	case (op == "|" || op == "||") && last == '|':
		return false
	case (op == "==" || op == "=") && (last == '=' || last == '!' || last == '<' || last == '>'):
		return false
	}
	return true
}

func tightSafeRight(op, right string) bool {
	if right == "" {
		return false
	}
	first := right[0]
	switch {
	case op == "/" && (first == '/' || first == '*'):
		return false
	case first == '=':
		return false
	case (op == "&" || op == "|") && (first == '&' || first == '|'):
		return false
	case (op == "<" || op == ">" || op == "!") && first == '=':
		return false
	case op == "-" && first == '-':
		// "a - -1" printed tight as "a--1" is legal but keep one form with a space for readability of samples
		return true
	}
	return true
}

// tightSafeBoth guards the one documented-vs-lexer trap the harness treats as a known finding
// (K6): an identifier that is exactly E or P directly followed by +/-digits lexes as an exponent
// token. The witness of K6 is replayed separately; generated spellings stay out of that cell.
func tightSafeBoth(left, op, right string) bool {
	if len(left) == 0 || len(right) == 0 {
		return true
	}
	if right[0] < '0' || right[0] > '9' {
		return true
	}
	// last identifier of left
	i := len(left)
	for i > 0 && isIdentByte(left[i-1]) {
		i--
	}
	id := left[i:]
	if len(id) == 0 {
		return true
	}
	// the lexer takes the longest match starting anywhere inside the identifier only at its
	// beginning, so only a whole identifier that can start an exponent token matters:
	// E, e, P, p followed by nothing else.
	switch id {
	case "E", "e", "P", "p":
		return false
	}
	// hex literal directly followed by +digit: "0x1p" forms; a literal ending in e/E (hex digit)
	// followed by +1 is still HEX_LIT then PLUS, safe.
	return true
}

func isIdentByte(c byte) bool {
	return c == '_' || c >= '0' && c <= '9' || c >= 'a' && c <= 'z' || c >= 'A' && c <= 'Z' || c >= 0x80
}

func (s *Style) PrintStmt(st *Stmt) string {
	switch st.Kind {
	case "assign":
		return s.PrintPath(st.Target) + s.ws(true) + st.AOp + s.ws(true) + s.PrintExpr(st.RHS)
	case "call":
		return s.printExpr(st.Call) // a statement is an atom: no parentheses around it
	case "retract":
		return "Retract" + s.ws(false) + "(" + s.ws(false) + s.PrintString(st.Name) + s.ws(false) + ")"
	case "complete":
		return "Complete" + s.ws(false) + "(" + s.ws(false) + ")"
	case "forget":
		return "Forget" + s.ws(false) + "(" + s.PrintString(st.Name) + ")"
	case "changed":
		return "Changed" + s.ws(false) + "(" + s.PrintString(st.Name) + ")"
	}
	return "/*?*/"
}

func (s *Style) PrintRule(r *Rule) string {
	var b strings.Builder
	b.WriteString(s.kw("rule"))
	b.WriteString(s.ws(true))
	b.WriteString(r.Name)
	b.WriteString(s.ws(true))
	if r.Desc != "" || s.rnd(2) == 0 {
		// descriptions are raw text between quotes
		q := `"`
		if s != nil && s.LitNot && s.rnd(2) == 0 && !strings.Contains(r.Desc, "'") {
			q = `'`
		}
		b.WriteString(q + r.Desc + q)
		b.WriteString(s.ws(true))
	}
	if r.HasSal {
		b.WriteString(s.kw("salience"))
		b.WriteString(s.ws(true))
		b.WriteString(s.PrintInt(r.Sal))
		b.WriteString(s.ws(true))
	}
	b.WriteString("{")
	b.WriteString(s.ws(true))
	b.WriteString(s.kw("when"))
	b.WriteString(s.ws(true))
	b.WriteString(s.PrintExpr(r.When))
	b.WriteString(s.ws(true))
	b.WriteString(s.kw("then"))
	b.WriteString(s.ws(true))
	for _, st := range r.Then {
		b.WriteString(s.PrintStmt(st))
		b.WriteString(s.ws(false))
		b.WriteString(";")
		b.WriteString(s.ws(true))
	}
	b.WriteString("}")
	return b.String()
}

func (s *Style) PrintProgram(p *Program) string {
	var b strings.Builder
	for _, r := range p.Rules {
		b.WriteString(s.PrintRule(r))
		b.WriteString("\n")
	}
	return b.String()
}

// PathText is the plain text of a path (used as Forget/Changed argument and in messages).
func PathText(p *Path) string { return PlainStyle.PrintPath(p) }

// ExprText is the plain text of an expression.
func ExprText(e *Expr) string { return PlainStyle.PrintExpr(e) }

// Walk visits every expression node below e (including selector expressions inside paths).
func (e *Expr) Walk(f func(*Expr)) {
	if e == nil {
		return
	}
	f(e)
	e.L.Walk(f)
	e.R.Walk(f)
	e.Recv.Walk(f)
	for _, a := range e.Args {
		a.Walk(f)
	}
	if e.Path != nil {
		for _, st := range e.Path.Steps {
			st.Sel.Walk(f)
		}
	}
}

// Depth of an expression tree.
func (e *Expr) Depth() int {
	if e == nil {
		return 0
	}
	d := 0
	for _, c := range append([]*Expr{e.L, e.R, e.Recv}, e.Args...) {
		if x := c.Depth(); x > d {
			d = x
		}
	}
	return d + 1
}

// kindGuess is the Go kind the expression's value has at run time when the facts have their
// initial kinds (variables and method results: their own kind; everything else: the canonical
// kind of the family).
func (e *Expr) kindGuess() reflect.Kind {
	if (e.Op == "var" || e.Op == "call" || e.Op == "member") && e.GK != 0 {
		return reflect.Kind(e.GK)
	}
	switch e.Ty {
	case TInt:
		return reflect.Int64
	case TUint:
		return reflect.Uint64
	case TFloat:
		return reflect.Float64
	case TStr:
		return reflect.String
	case TBool:
		return reflect.Bool
	}
	return reflect.Invalid
}

// Decorate adds redundant parenthesis pairs (Par) at random expression-level positions of e.
// Receivers of method calls are atoms in the grammar and are never parenthesised.
func Decorate(e *Expr, r *rand.Rand) {
	if e == nil {
		return
	}
	if r.Intn(6) == 0 && e.Par < 2 {
		e.Par++
	}
	Decorate(e.L, r)
	Decorate(e.R, r)
	for _, a := range e.Args {
		Decorate(a, r)
	}
	if e.Recv != nil {
		// only below the receiver (its arguments / selectors), not the receiver itself
		for _, a := range e.Recv.Args {
			Decorate(a, r)
		}
		decoratePath(e.Recv.Path, r)
		if e.Recv.Recv != nil {
			Decorate(&Expr{Op: "call", Recv: e.Recv.Recv}, r)
		}
	}
	decoratePath(e.Path, r)
}

func decoratePath(p *Path, r *rand.Rand) {
	if p == nil {
		return
	}
	for _, st := range p.Steps {
		Decorate(st.Sel, r)
	}
}

// DecorateProgram decorates every expression of a program once (shared objects stay shared).
func DecorateProgram(p *Program, r *rand.Rand) {
	seen := map[*Expr]bool{}
	dec := func(e *Expr) {
		if e != nil && !seen[e] {
			seen[e] = true
			Decorate(e, r)
		}
	}
	for _, rule := range p.Rules {
		dec(rule.When)
		for _, st := range rule.Then {
			dec(st.RHS)
			if st.Call != nil {
				for _, a := range st.Call.Args {
					dec(a)
				}
			}
			decoratePath(st.Target, r)
		}
	}
}
