package main

// C17: a GRL document is accepted exactly when it is grammatical.
// The independent recogniser (recog.go) decides what acceptance should be for valid generated
// documents and for token- / character-level mutants of them; the builder's answer, the rules
// it installs, the error type and the health of previously loaded rules are compared with it.

import (
	"bytes"
	"errors"
	"fmt"
	"math/rand"
	"strconv"
	"strings"

	"github.com/hyperjumptech/grule-rule-engine/ast"
	"github.com/hyperjumptech/grule-rule-engine/builder"
	"github.com/hyperjumptech/grule-rule-engine/pkg"
)

var c17Dict = []string{
	"rule", "RULE", "when", "When", "then", "THEN", "salience", "Salience", "true", "FALSE", "nil", "NIL",
	"{", "}", "(", ")", "[", "]", ";", ",", ".", "+", "-", "*", "/", "%", "&", "|", "&&", "||", "!", "=", "==", "!=", "<", "<=", ">", ">=", "+=", "-=", "*=", "/=",
	"X", "F", "F.A", "Rule2", "Pre1", "Pre2", "rule Pre1", "rule Pre2 \"p\" salience 3", "whenx", "rulez", "_a", "é", "a_1", "E", "P", "e5", "E+5",
	"0", "1", "-1", "007", "08", "0x", "0x1F", "0xG", "9223372036854775807", "9223372036854775808", "-9223372036854775808", "-9223372036854775809",
	"2147483647", "2147483648", "-2147483648", "-2147483649", "1.5", ".5", "1.", "1e5", "1e999", "0x1p-2", "0x1p99999", "1e", "1.5.5",
	`"s"`, `'s'`, `"a\"b"`, `"bad \q"`, `"\x4"`, `"\u12"`, `"\400"`, `"a""b"`, `'a''b'`, `"unterminated`, `'unterminated`, `"\'"`, `'\"'`, `""`,
	"#", "@", "$", "^", "~", "`", "\\", "?", ":", "/*", "*/", "//", "/* c */", "// c\n", "\x00", "\xff", "·", " ",
}

func c17BaseDoc(r *rand.Rand) (string, *Program) {
	o := TraceOpts{MinRules: 1, MaxRules: 3, MinPool: 3, MaxPool: 5, Control: true, Calls: r.Intn(2) == 0, Strs: true, Times: false, Depth: 2}
	prog := GenTraceProgram(r, o)
	style := &Style{R: rand.New(rand.NewSource(r.Int63())), Spacing: r.Intn(3) == 0, KwCase: r.Intn(2) == 0, LitNot: r.Intn(2) == 0, AmpSafe: true, NotParen: true}
	if r.Intn(3) == 0 {
		DecorateProgram(prog, r)
	}
	return style.PrintProgram(prog), prog
}

func joinToks(toks []Tok) string {
	var b strings.Builder
	for i, t := range toks {
		if i > 0 {
			b.WriteString(" ")
		}
		b.WriteString(t.Text)
	}
	return b.String()
}

func c17Mutate(r *rand.Rand, text string) (string, string) {
	edits := 1 + r.Intn(3)
	kind := ""
	if r.Intn(12) == 0 {
		// rule level: one rule of the document appears twice (same name), possibly with another body
		toks, _ := Lex([]byte(text))
		var starts []int
		for i, t := range toks {
			if t.Kind == "RULE" {
				starts = append(starts, i)
			}
		}
		if len(starts) > 0 {
			k := r.Intn(len(starts))
			end := len(toks)
			if k+1 < len(starts) {
				end = starts[k+1]
			}
			dup := append([]Tok(nil), toks[starts[k]:end]...)
			if r.Intn(2) == 0 && len(dup) > 8 {
				dup[len(dup)-3] = Tok{"", "1"} // change something in the body
			}
			if r.Intn(2) == 0 {
				return joinToks(append(dup, toks...)), "rule-duplicate"
			}
			return joinToks(append(toks, dup...)), "rule-duplicate"
		}
	}
	if r.Intn(2) == 0 {
		// token level
		toks, _ := Lex([]byte(text))
		if len(toks) < 3 {
			return text + " #", "char"
		}
		for e := 0; e < edits; e++ {
			i := r.Intn(len(toks))
			switch r.Intn(5) {
			case 0:
				toks = append(toks[:i], toks[i+1:]...)
				kind += "tok-delete "
			case 1:
				toks = append(toks[:i+1], toks[i:]...)
				kind += "tok-duplicate "
			case 2:
				j := r.Intn(len(toks))
				toks[i], toks[j] = toks[j], toks[i]
				kind += "tok-swap "
			case 3:
				toks[i] = Tok{"", c17Dict[r.Intn(len(c17Dict))]}
				kind += "tok-replace "
			default:
				toks = append(toks[:i+1], toks[i:]...)
				toks[i] = Tok{"", c17Dict[r.Intn(len(c17Dict))]}
				kind += "tok-insert "
			}
			if len(toks) == 0 {
				break
			}
		}
		return joinToks(toks), kind
	}
	b := []byte(text)
	for e := 0; e < edits && len(b) > 0; e++ {
		i := r.Intn(len(b))
		switch r.Intn(5) {
		case 0:
			b = append(b[:i], b[i+1:]...)
			kind += "char-delete "
		case 1:
			b = append(b[:i+1], b[i:]...)
			kind += "char-duplicate "
		case 2:
			j := r.Intn(len(b))
			b[i], b[j] = b[j], b[i]
			kind += "char-swap "
		case 3:
			const repl = "{}()[];,.+-*/%&|!=<>\"'\\#@x0 \n\xff"
			b[i] = repl[r.Intn(len(repl))]
			kind += "char-replace "
		default:
			ins := c17Dict[r.Intn(len(c17Dict))]
			b = append(b[:i], append([]byte(ins), b[i:]...)...)
			kind += "char-insert "
		}
	}
	return string(b), kind
}

// string literals with every class of escape, well-formed and ill-formed, in both quote styles
func init() {
	for _, lit := range []string{
		`"it\'s"`, `'say \"hi\"'`, `'it\'s'`, `"say \"hi\""`, `"\c"`, `'\c'`, `"\x4"`, `"\x41"`, `"\xg1"`, `"\u12"`, `"\u00e9"`,
		`"\ud800"`, `"\udfff"`, `"\U0001F600"`, `"\U00110000"`, `"\U0000d800"`, `"\400"`, `"\377"`, `"\101"`, `"\18"`, `"\1"`,
		`"\a\b\f\n\r\t\v\\"`, `"tail\"`, `'tail\'`, `"\ "`, `"\/"`, `"\0"`, `"\e"`, `"\N"`, `"\X41"`,
	} {
		c17Targeted = append(c17Targeted,
			`rule R "d" { when true then F.S1 = `+lit+`; }`,
			`rule R "d" { when F.S1 == `+lit+` then F.A = 1; }`,
			`rule R "d" { when true then F.S1 = T.Cat("a", `+lit+`, "b"); }`)
	}
}

// rejected texts whose only new node is a variable (the error sits directly behind a variable that
// the preloaded rules do not use): always loaded into the preloaded knowledge base
func init() {
	for _, d := range []string{
		`rule Z "z" { when F.Zz`, `rule Z "z" { when F.Zz @ 1 then F.A = 1; }`, `rule Z "z" { when F.Zz.Zy ) then F.A = 1; }`,
		`rule Z "z" { when true then F.Zq`, `rule Z "z" { when true then F.Zq = ; }`, `rule Z "z" { when true then F.Zq @`,
		`rule Z "z" { when true then F.Arr[F.Zi`, `rule Z "z" { when G.Zg`, `rule Z "z" { when true then G.Zh = `,
		`rule Z "z" { when F.A > 0 then F.B = 1; } rule Y "y" { when F.Zk`, `rule Z "z" { when Zt`, `rule Z "z" { when true then Zu =`,
		// no error recovery completes the enclosing atom here; everything else of the rule exists already
		`rule Z "z" { when Zc.When == 1 then F.A = F.A + 1; }`, `rule Z "z" { when Zc. == 1 then F.A = F.A + 1; }`,
		`rule Z "z" salience 2 { when Zc..Age > 18 then F.A = F.A + 1; }`, `rule Z "z" { when F.A < 3 && Zo.Rule > 1 then F.A = F.A + 1; }`,
		`rule Z "z" { when F.A < 3 then F.A = F.A + 1; F.Zq = = 1; }`, `rule Z "z" { when F.A < 3 then F.Zq = * 2; }`,
		`rule Z "z" { when F.When == 1 then F.A = F.A + 1; }`, `rule Fine "ok" { when F.A < 3 then F.A = F.A + 1; } rule Z "z" { when F.A < 3 && G.Then > 1 then F.A = F.A + 1; }`,
	} {
		c17Targeted = append(c17Targeted, "/* loaded after Pre1 */ "+d)
	}
}

// texts without any rule, and valid rules whose parse trees are long or deep
func init() {
	c17Targeted = append(c17Targeted, "", " \n\t ", "// only a comment", "/* only a comment */\n", "// c\n/* d */ // e")
	chain := func(n int, op, term string) string {
		var b strings.Builder
		for i := 0; i < n; i++ {
			if i > 0 {
				b.WriteString(" " + op + " ")
			}
			fmt.Fprintf(&b, term, i)
		}
		return b.String()
	}
	for _, n := range []int{40, 70, 130} {
		c17Targeted = append(c17Targeted,
			`rule Wide "or chain" { when `+chain(n, "||", "F.A == %d")+` then F.A = 1; } rule After "must survive" salience 3 { when true then F.B = 2; }`,
			`rule Wide "sum" { when `+chain(n, "+", "%d")+` > F.A then F.A = `+chain(n, "+", "%d")+`; } rule After "must survive" { when true then F.B = 2; }`)
	}
	for _, d := range []int{20, 33, 48} {
		var open, close strings.Builder
		for i := 0; i < d; i++ {
			fmt.Fprintf(&open, "F.A >= %d && (", i)
			close.WriteString(")")
		}
		c17Targeted = append(c17Targeted,
			`rule Deep "nested" { when `+open.String()+`F.T`+close.String()+` then F.A = 1; } rule After "must survive" { when true then F.B = 2; }`,
			`rule Deep "nested sum" { when true then F.A = `+strings.Repeat("(1 + ", d)+`1`+strings.Repeat(")", d)+`; } rule After "must survive" { when true then F.B = 2; }`)
	}
}

var c17Targeted = []string{
	`rule when "d" { when true then F.A = 1; }`,
	`rule R "d" { when then F.A = 1; }`,
	`rule R "d" { when true then }`,
	`rule R "d" { when true then F.A = 1 }`,
	`rule R "d" { when true then F.A = 1;; }`,
	`rule R "d" { when (true then F.A = 1; }`,
	`rule R "d" { when true) then F.A = 1; }`,
	`rule R "d" { when F.Arr[0 > 1 then F.A = 1; }`,
	`rule R "d" { when true then F.A = 1; `,
	`rule R "d" when true then F.A = 1; }`,
	`rule R "d" { when true then F.A = 1; } }`,
	`rule R "d" { when true then F.A = 1; } #`,
	`rule R "d" { when true @ then F.A = 1; }`,
	`rule R "d" { when true then F.A = "unterminated; }`,
	`rule R "d" { when true /* unterminated then F.A = 1; }`,
	`rule R "d" { when true then F.S1 = "a""b"; }`,
	`rule R "d" { when true then F.S1 = "bad \q escape"; }`,
	`rule R "d" { when true then F.A = 9223372036854775808; }`,
	`rule R "d" { when true then F.A = -9223372036854775808; }`,
	`rule R "d" { when true then F.A = 1 - 9223372036854775808; }`,
	`rule R "d" { when true then F.X = 1e999; }`,
	`rule R "d" salience 2147483647 { when true then F.A = 1; }`,
	`rule R "d" salience 2147483648 { when true then F.A = 1; }`,
	`rule R "d" salience -2147483648 { when true then F.A = 1; }`,
	`rule R "d" salience -2147483649 { when true then F.A = 1; }`,
	`rule R "d" salience 1.5 { when true then F.A = 1; }`,
	`rule R "d" salience { when true then F.A = 1; }`,
	`rule R "d" "e" { when true then F.A = 1; }`,
	`rule R { when true then F.A = 1; } rule R { when false then F.A = 2; }`,
	`rule Pre1 "dup of a preloaded rule" { when true then F.A = 1; }`,
	`rule Pre1`,
	`rule Pre1 "x" salience 10`,
	`rule Pre2 "x"`,
	`rule Pre1 "x" salience 10 rule Z "z" { when true then F.A = 1; }`,
	`rule Z "z" { when true then F.A = 1; } rule Pre2`,
	`rule Pre1 "x" {`,
	`rule Pre2 "x" { when`,
	`rule true "d" { when true then F.A = 1; }`,
	`rule R "d" { when true then true = 1; }`,
	`rule R "d" { when true then F.rule = 1; }`,
	`rule R "d" { when true then nil(); }`,
	`rule R "d" { when !true then !F.Poke(); }`,
	`rule R "d" { when F.A == 1 && then F.A = 1; }`,
	`rule R "d" { when true then F.A == 1; }`,
	`rule R "d" { when F.A = 1 then F.A = 1; }`,
	`rule R "d" { when true then F.A =+ 1; }`,
	`rule R "d" { when true then (F.A) = 1; }`,
	`rule R "d" { when true then F.A = (1; }`,
	`rule R "d" { when true then F.M["k"].X.Y[0](1) = 1; }`,
	`rule R "d" { when true then F.Call(1,); }`,
	`rule R "d" { when true then F.Call(,1); }`,
	`rule R "d" { when true then F.A = 1; Retract("R") }`,
	"rule R \"d\" { when true then F.A = 1; }\x00",
	"\ufeffrule R \"d\" { when true then F.A = 1; }",
	``,
	`   `,
	`// only a comment`,
	`rule`,
	`rule R`,
	`rule R "d" {`,
	`RULE r 'd' SALIENCE -0x10 { WHEN TRUE THEN F.A = 0X1F; }`,
	`rule R "d" { when "a".Len() > 0 && 'b' + 1 == "b1" then Log("x"); }`,
	`rule R "d" { when 1 < 2 < 3 then F.A = 1; }`,
	`rule R "d" { when F.A.B.C[1][2].D() then F.A = 1; }`,
	`rule R "d" { when true then F.A = - 1; }`,
	`rule R "d" { when true then F.A = 1 -1; }`,
	`rule R "d" { when true then F.A = 1--1; }`,
	`rule R "d" { when true then F.A = -F.B; }`,
}

// declared rules of a token stream: name -> (description declared?, description, salience declared?, salience)
type declRule struct {
	Name    string
	HasDesc bool
	Desc    string
	HasSal  bool
	Sal     int64
}

func declaredRules(toks []Tok) []declRule {
	var out []declRule
	for i := 0; i < len(toks); i++ {
		if toks[i].Kind != "RULE" || i+1 >= len(toks) {
			continue
		}
		d := declRule{Name: toks[i+1].Text}
		j := i + 2
		if j < len(toks) && (toks[j].Kind == "DQUOTA_STRING" || toks[j].Kind == "SQUOTA_STRING") {
			d.HasDesc = true
			d.Desc = toks[j].Text[1 : len(toks[j].Text)-1]
			j++
		}
		if j < len(toks) && toks[j].Kind == "SALIENCE" {
			j++
			txt := ""
			if j < len(toks) && toks[j].Kind == "MINUS" {
				txt = "-"
				j++
			}
			if j < len(toks) {
				if v, err := strconv.ParseInt(txt+toks[j].Text, 0, 64); err == nil {
					d.HasSal, d.Sal = true, v
				}
			}
		}
		out = append(out, d)
	}
	return out
}

var c17PreText = `rule Pre1 "preloaded one" salience 5 { when F.A < 3 then F.A = F.A + 1; }
rule Pre2 "preloaded two" { when F.A == 3 && F.B < 2 then F.B = F.B + 1; G.A = F.B; }
`

func c17PreProg() *Program {
	a := VarE(P("F.A"), TInt, 0)
	b := VarE(P("F.B"), TInt, 0)
	return &Program{Rules: []*Rule{
		{Name: "Pre1", Desc: "preloaded one", HasSal: true, Sal: 5, When: Bin("<", TBool, a, LitI(3)), Then: []*Stmt{Assign(P("F.A"), "=", Bin("+", TInt, a, LitI(1)))}},
		{Name: "Pre2", Desc: "preloaded two", When: Bin("&&", TBool, Bin("==", TBool, a, LitI(3)), Bin("<", TBool, b, LitI(2))),
			Then: []*Stmt{Assign(P("F.B"), "=", Bin("+", TInt, b, LitI(1))), Assign(P("G.A"), "=", b)}},
	}}
}

func runC17Case(c *Ctx, idx int) *CaseResult {
	cr := &CaseResult{}
	r := c.Rng(idx, 0)
	var doc, kind string
	switch {
	case idx < len(c17Targeted):
		doc, kind = c17Targeted[idx], "targeted"
	default:
		base, _ := c17BaseDoc(r)
		if r.Intn(6) == 0 {
			doc, kind = base, "valid"
		} else {
			doc, kind = c17Mutate(r, base)
		}
	}
	if len(doc) > 4096 {
		cr.inc("documents_skipped_too_long")
		return cr
	}
	preloaded := r.Intn(2) == 0 || strings.Contains(doc, "Pre1")
	have := map[string]bool{}
	lib := ast.NewKnowledgeLibrary()
	rb := builder.NewRuleBuilder(lib)
	if preloaded {
		if err := rb.BuildRuleFromResource(kbName, kbVer, pkg.NewBytesResource([]byte(c17PreText))); err != nil {
			cr.inconclusive("preloaded rules rejected: " + err.Error())
			return cr
		}
		have["Pre1"], have["Pre2"] = true, true
	}
	want, reason := Accept([]byte(doc), have)
	var berr error
	var pn interface{}
	func() {
		defer func() {
			if p := recover(); p != nil {
				pn = p
			}
		}()
		berr = rb.BuildRuleFromResource(kbName, kbVer, pkg.NewBytesResource([]byte(doc)))
	}()
	cr.Evals++
	detail := map[string]interface{}{"document": doc, "mutation": kind, "recogniser": map[bool]string{true: "accept", false: "reject: " + reason}[want], "preloaded": preloaded}
	if pn != nil {
		cr.violate(fmt.Sprintf("BuildRuleFromResource panicked instead of returning an error: %v", pn), detail)
		return cr
	}
	got := berr == nil
	if got != want {
		if want {
			cr.violate("a grammatical document with valid literals and distinct names is rejected: "+berr.Error()+" "+reporterText(berr), detail)
		} else {
			cr.violate("a document that is not grammatical ("+reason+") is accepted without error", detail)
		}
		return cr
	}
	if want {
		cr.inc("accepted")
		// every rule of the text is in the knowledge base with its declared description and salience
		toks, _ := Lex([]byte(doc))
		kb := lib.GetKnowledgeBase(kbName, kbVer)
		for _, d := range declaredRules(toks) {
			re, ok := kb.RuleEntries[d.Name]
			if !ok || re.Deleted {
				cr.violate("accepted document: rule "+d.Name+" is not in the knowledge base", detail)
				return cr
			}
			if d.HasDesc && re.RuleDescription != d.Desc {
				cr.violate(fmt.Sprintf("accepted document: rule %s has description %q, declared %q", d.Name, re.RuleDescription, d.Desc), detail)
				return cr
			}
			if d.HasSal && int64(re.Salience) != d.Sal || !d.HasSal && re.Salience != 0 {
				cr.violate(fmt.Sprintf("accepted document: rule %s has salience %d, declared %v %d", d.Name, re.Salience, d.HasSal, d.Sal), detail)
				return cr
			}
		}
	} else {
		cr.inc("rejected_" + reason)
		cr.set("rejection_channels", reason)
		if reason == "lex" || reason == "syntax" {
			var rep *pkg.GruleErrorReporter
			if !errors.As(berr, &rep) || len(rep.Errors) == 0 {
				cr.violate(fmt.Sprintf("a syntax rejection is not reported through a GruleErrorReporter listing at least one error (got %T: %v)", berr, berr), detail)
				return cr
			}
		}
	}
	cr.NonTrivial = append(cr.NonTrivial, hashStr(doc))
	// the rules loaded before are undamaged
	if preloaded {
		if msg := c17Undamaged(lib, c.Rng(idx, 9)); msg != "" {
			cr.violate("after this document the previously loaded rules are damaged: "+msg, detail)
			return cr
		}
		cr.inc("undamaged_checks")
		if !want {
			cr.inc("undamaged_checks_after_rejection")
		}
	}
	// a knowledge base that saw nothing but a rejected text is still a good place for the next text
	// (not when the rejected text itself names Pre1 / Pre2: what it may have left behind would
	// make the pre-text a legitimate duplicate)
	if !preloaded && berr != nil && !strings.Contains(doc, "Pre1") && !strings.Contains(doc, "Pre2") {
		if err := rb.BuildRuleFromResource(kbName, kbVer, pkg.NewBytesResource([]byte(c17PreText))); err != nil {
			cr.violate("a well-formed text is rejected by a knowledge base that only saw a rejected text before: "+err.Error(), detail)
			return cr
		}
		if msg := c17Undamaged(lib, c.Rng(idx, 9)); msg != "" {
			cr.violate("rules loaded after a rejected text (into a knowledge base that held nothing else) do not work: "+msg, detail)
			return cr
		}
		cr.inc("good_text_after_a_rejection_into_an_empty_knowledge_base")
	}
	if cr.Sample == nil && idx%211 == 0 {
		cr.Sample = map[string]interface{}{"document": trunc(doc, 500), "mutation": kind, "recogniser": detail["recogniser"], "builder_error": fmt.Sprint(berr)}
	}
	return cr
}

func reporterText(err error) string {
	var rep *pkg.GruleErrorReporter
	if errors.As(err, &rep) {
		var l []string
		for _, e := range rep.Errors {
			l = append(l, e.Error())
		}
		return "[" + strings.Join(l, "; ") + "]"
	}
	return ""
}

// c17Undamaged: instance creation, store and load succeed; after removing the newcomers from an
// instance the old rules satisfy the per-run monitors and give the expected matching set.
func c17Undamaged(lib *ast.KnowledgeLibrary, r *rand.Rand) (msg string) {
	defer func() {
		if p := recover(); p != nil {
			msg = fmt.Sprintf("panic: %v", p)
		}
	}()
	prog := c17PreProg()
	check := func(l *ast.KnowledgeLibrary, what string) string {
		kb, err := l.NewKnowledgeBaseInstance(kbName, kbVer)
		if err != nil {
			return what + ": NewKnowledgeBaseInstance fails: " + err.Error()
		}
		for n := range kb.RuleEntries {
			if n != "Pre1" && n != "Pre2" {
				kb.RemoveRuleEntry(n)
			}
		}
		st := GenState(r)
		f := st["F"].(*Fact)
		f.A, f.B = int64(r.Intn(5)), int64(r.Intn(3))
		fres := Run(kb, prog, CopyStateLive(st), RunCfg{Fetch: true})
		vs, _, _ := MonFetch(prog, fres, RunCfg{Fetch: true}, st, nil)
		if len(vs) > 0 {
			return what + ": FetchMatchingRules on the old rules: " + joinViol(vs[:1])
		}
		cfg := RunCfg{MaxCycle: 20}
		res := Run(kb, prog, CopyStateLive(st), cfg)
		if res.Panic != nil {
			return what + fmt.Sprintf(": panic while executing the old rules: %v", res.Panic)
		}
		a := Analyze(prog, res, cfg, nil)
		var v []Violation
		v = append(v, MonFiresOnlyWhenTrue(a)...)
		v = append(v, MonCandidatesComplete(a)...)
		v = append(v, MonReplayEqual(a)...)
		v = append(v, MonMaxSalience(a)...)
		if res.Err != nil {
			return what + ": executing the old rules fails: " + res.Err.Error()
		}
		if len(v) > 0 {
			return what + ": the old rules behave differently: " + joinViol(v[:1])
		}
		return ""
	}
	if m := check(lib, "library"); m != "" {
		return m
	}
	var buf bytes.Buffer
	if err := lib.StoreKnowledgeBaseToWriter(&buf, kbName, kbVer); err != nil {
		return "store fails: " + err.Error()
	}
	l2 := ast.NewKnowledgeLibrary()
	if _, err := l2.LoadKnowledgeBaseFromReader(bytes.NewReader(buf.Bytes()), true); err != nil {
		return "the stored knowledge base does not load: " + err.Error()
	}
	return check(l2, "after store/load")
}

func init() {
	register(&Check{
		ID: "C17", Level: "exploration",
		Rule: "valid generated documents (all spellings) and mutants of them: delete / duplicate / swap / replace / insert at token level and at character level, 1-3 edits, replacements from a dictionary of keywords, operators, brackets, identifiers, boundary and malformed literals, stray and non-ASCII characters; plus a library of targeted documents (reserved words as identifiers, unbalanced brackets, empty when/then, missing ';', stray '#'/'@', unterminated strings and comments, doubled quotes, out-of-range literals, salience boundaries, duplicate names); each loaded into an empty knowledge base or one preloaded with two good rules; oracle = independent recogniser (lexer transcribed from the token rules with ANTLR semantics + Earley recogniser over the parser rules as data + literal / escape / name validity from the docs); on acceptance every declared rule must be present with its description and salience; syntax rejections must be a GruleErrorReporter with >=1 error; after every document the preloaded rules must instantiate, store, load and behave as before (per-run monitors); non-trivial = distinct documents judged; evidence counts accepted and each rejection channel (lex, syntax, intrange, floatrange, salrange, escape, dupname); 90 targeted documents with every class of string escape, well-formed and ill-formed, in both quote styles and three positions; rule-less texts, or-chains / sums of 40-130 terms and 20-48 nesting levels (each followed by a rule that must survive), rejected texts whose only new node is a variable (always into the preloaded knowledge base); after a rejection into an empty knowledge base the pre-text is built into it and must work",
		Assume: []string{"the recogniser (harness/recog.go) is the specification of 'grammatical'; it was validated against the unchanged builder on 520 000 mutants at design time and agrees on every document of every run", "documents up to 4 KiB"},
		Cases:  tierN(6000, 300000),
		Run:    runC17Case,
	})
}
