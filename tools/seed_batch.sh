#!/bin/bash
# usage: tools/seed_batch.sh "<prop>:<checks...>" ...   evaluates /tmp/seedout/<prop>/m*/ with the suite
cd "$(dirname "$0")/.."
for spec in "$@"; do
  prop=${spec%%:*}; checks=${spec#*:}
  for d in /tmp/seedout/$prop/m*/; do
    [ -f "$d/patch.diff" ] || continue
    m=$(basename "$d")
    echo "=== $prop-$m"
    python3 tools/seed_eval.py "$d" "$prop-$m" "$prop" $checks 2>&1 | tail -8
  done
done
