package main

// C05, deterministic part: every documented built-in function and string function over a
// small table of arguments of both signs / all edge shapes (the random trees reach them only by
// chance, and mostly with positive arguments).

import "reflect"

var c05FuncCases = buildC05FuncCases()

func buildC05FuncCases() []*Expr {
	var out []*Expr
	fl := func(v float64) *Expr { return LitF(v) }
	// one-argument math wrappers
	for _, fn := range mathUnaryNames {
		for _, a := range []float64{-2.5, -1, -0.5, 0, 0.5, 1, 2.5, 10} {
			out = append(out, CallE(nil, fn, TFloat, reflect.Float64, fl(a)))
		}
	}
	// two-argument math wrappers (argument order matters for all of them)
	for _, fn := range mathBinaryNames {
		for _, a := range []float64{-2, -0.5, 0, 0.5, 3} {
			for _, b := range []float64{-2, -0.5, 0, 0.5, 3} {
				out = append(out, CallE(nil, fn, TFloat, reflect.Float64, fl(a), fl(b)))
			}
		}
	}
	// variadic Max / Min: every 1- and 2-tuple, and 3-/4-tuples with the extreme at every position
	vals := []float64{-3, -0.75, 0, 0.5, 2}
	for _, fn := range []string{"Max", "Min"} {
		for _, a := range vals {
			out = append(out, CallE(nil, fn, TFloat, reflect.Float64, fl(a)))
			for _, b := range vals {
				out = append(out, CallE(nil, fn, TFloat, reflect.Float64, fl(a), fl(b)))
			}
		}
		for _, t := range [][]float64{{-3, -0.75, -1}, {-0.75, -3, -1}, {-1, -0.75, -3}, {0, -3, -0.75}, {-3, 0, -0.75}, {2, 0.5, 0.25}, {0.5, 2, 0.25}, {0.25, 0.5, 2},
			{-3, -2, -1, -0.5}, {-0.5, -1, -2, -3}, {-1, -3, -0.5, -2}, {1, 2, 3, 4}, {4, 3, 2, 1}, {2, 4, 1, 3}, {-1, 0, 1, 0}, {0, 0, 0, 0}} {
			var args []*Expr
			for _, v := range t {
				args = append(args, fl(v))
			}
			out = append(out, CallE(nil, fn, TFloat, reflect.Float64, args...))
		}
	}
	// string functions: literal receivers and a fact field as receiver (F.S1 is set by the case)
	recvs := []string{"", "a", "abcabc", " a b ", "\t ab \n", "\r\nk1\t", " a　", "  ", "\vab\f", "AbC é✓", "aXbXa"}
	sargs := []string{"", "a", "b", "ab", " ", "X", "bc"}
	for _, rs := range recvs {
		for _, fn := range []string{"ToUpper", "ToLower", "Trim"} {
			out = append(out, CallE(LitS(rs), fn, TStr, reflect.String))
		}
		out = append(out, CallE(LitS(rs), "Len", TInt, reflect.Int))
		for _, n := range []int64{0, 1, 3} {
			out = append(out, CallE(LitS(rs), "Repeat", TStr, reflect.String, LitI(n)))
		}
		for _, a := range sargs {
			for _, fn := range []string{"Count", "Index", "LastIndex", "Compare"} {
				out = append(out, CallE(LitS(rs), fn, TInt, reflect.Int, LitS(a)))
			}
			for _, fn := range []string{"Contains", "HasPrefix", "HasSuffix"} {
				out = append(out, CallE(LitS(rs), fn, TBool, reflect.Bool, LitS(a)))
			}
			out = append(out, CallE(LitS(rs), "In", TBool, reflect.Bool, LitS("zz"), LitS(a)))
			out = append(out, CallE(nil, "StringContains", TBool, reflect.Bool, LitS(rs), LitS(a)))
			for _, b := range []string{"", "Q", "ab"} {
				out = append(out, CallE(LitS(rs), "Replace", TStr, reflect.String, LitS(a), LitS(b)))
			}
		}
	}
	// regular expressions on strings
	for _, rs := range recvs {
		for _, pat := range regexPatterns {
			out = append(out, CallE(LitS(rs), "MatchString", TBool, reflect.Bool, LitS(pat)))
		}
	}
	// time predicates: equal instants, one second apart, either order
	mk := func(sec int64) *Expr {
		return CallE(nil, "MakeTime", TTime, reflect.Struct, LitI(2021), LitI(11), LitI(30), LitI(23), LitI(58), LitI(sec))
	}
	for _, fn := range []string{"IsTimeBefore", "IsTimeAfter"} {
		for _, p := range [][2]int64{{7, 7}, {7, 8}, {8, 7}, {0, 0}, {0, 59}} {
			out = append(out, CallE(nil, fn, TBool, reflect.Bool, mk(p[0]), mk(p[1])))
		}
		out = append(out, CallE(nil, fn, TBool, reflect.Bool, VarE(P("F.Tm"), TTime, reflect.Struct), VarE(P("F.Tm"), TTime, reflect.Struct)))
		out = append(out, CallE(nil, fn, TBool, reflect.Bool, VarE(P("F.Tm"), TTime, reflect.Struct), VarE(P("F.Tm2"), TTime, reflect.Struct)))
	}
	// time accessors on a constructed time
	for _, fn := range []string{"GetTimeYear", "GetTimeMonth", "GetTimeDay", "GetTimeHour", "GetTimeMinute", "GetTimeSecond"} {
		out = append(out, CallE(nil, fn, TInt, reflect.Int, CallE(nil, "MakeTime", TTime, reflect.Struct, LitI(2021), LitI(11), LitI(30), LitI(23), LitI(58), LitI(7))))
	}
	// division of large exact dividends: "/" yields the real quotient whatever the magnitude
	for _, a := range []int64{9007199254740994, 1152921504606846976, -4611686018427387904, 1700000000000000000, 9007199254740993, 3} {
		for _, b := range []int64{2, 4, 5, 1000000000, -2, 3} {
			out = append(out, Bin("/", TFloat, LitI(a), LitI(b)))
			out = append(out, Bin("+", TStr, LitS("q="), Bin("/", TFloat, LitI(a), LitI(b))))
			out = append(out, CallE(nil, "Floor", TFloat, reflect.Float64, Bin("/", TFloat, LitI(a), LitI(b))))
		}
	}
	// variadic ...interface{}: arguments arrive one by one, a slice or JSON array is one argument
	out = append(out,
		CallE(tool(), "NArgs", TInt, reflect.Int64, VarE(P("J.arr"), TAny, reflect.Slice)),
		CallE(tool(), "NArgs", TInt, reflect.Int64, VarE(P("J.arr"), TAny, reflect.Slice), LitI(1)),
		CallE(tool(), "NArgs", TInt, reflect.Int64, LitI(1), LitS("a"), LitB(true)),
		CallE(tool(), "NArgs", TInt, reflect.Int64),
		CallE(tool(), "NArgs", TInt, reflect.Int64, VarE(P("J.obj"), TAny, reflect.Map)))
	return out
}

// c05TableFrozen: length of the table when the seeded changes were last re-evaluated; cases drawn
// from the generator keep the PRNG index they had then (later table entries are appended).
const c05TableFrozen = 1689

// c05RecvViaField rewrites a literal string receiver into F.S1 (the state gets the string).
func c05RecvViaField(e *Expr, st State) *Expr {
	if e.Op != "call" || e.Recv == nil || e.Recv.Op != "lit" || e.Recv.Ty != TStr {
		return e
	}
	f, ok := st["F"].(*Fact)
	if !ok {
		return e
	}
	f.S1 = e.Recv.Lit.S
	c := *e
	c.Recv = VarE(P("F.S1"), TStr, reflect.String)
	return &c
}
