package main

// Shared check infrastructure: deterministic case indexing, parallel case execution, verdict
// bookkeeping (violated / held / inconclusive), replay files, evidence files, known findings.

import (
	"encoding/json"
	"fmt"
	"hash/fnv"
	"math/rand"
	"os"
	"path/filepath"
	"runtime"
	"sort"
	"strings"
	"sync"
	"sync/atomic"
	"time"
)

// CaseResult is what one case reports back to the driver.
type CaseResult struct {
	Index        int
	Evals        int               // executions performed by this case
	NonTrivial   []string          // keys of distinct non-trivial sub-cases observed (hashed identity)
	Inconclusive map[string]int    // reason -> count
	Counters     map[string]int    // free-form measured counters
	Sets         map[string]string // name -> element to add to a named distinct-set (e.g. interleaving signatures)
	SetsMany     map[string][]string
	Violations   []CaseViolation
	Sample       interface{} // a written-out description of the case (kept for the first few)
}

// CaseViolation is one violation found by a case.
type CaseViolation struct {
	Msg    string      `json:"msg"`
	Detail interface{} `json:"detail,omitempty"`
	Sub    string      `json:"sub,omitempty"` // sub-case selector for replay
}

func (c *CaseResult) inc(k string) {
	if c.Counters == nil {
		c.Counters = map[string]int{}
	}
	c.Counters[k]++
}

func (c *CaseResult) addn(k string, n int) {
	if c.Counters == nil {
		c.Counters = map[string]int{}
	}
	c.Counters[k] += n
}

func (c *CaseResult) inconclusive(reason string) {
	if c.Inconclusive == nil {
		c.Inconclusive = map[string]int{}
	}
	c.Inconclusive[reason]++
}

func (c *CaseResult) set(name, elem string) {
	if c.SetsMany == nil {
		c.SetsMany = map[string][]string{}
	}
	c.SetsMany[name] = append(c.SetsMany[name], elem)
}

func (c *CaseResult) violate(msg string, detail interface{}) {
	c.Violations = append(c.Violations, CaseViolation{Msg: msg, Detail: detail})
}

// Check is one property check.
type Check struct {
	ID       string
	Level    string // evidence level
	Rule     string // how cases are generated and what makes one non-trivial
	Assume   []string
	Cases    func(tier string) int
	Run      func(c *Ctx, idx int) *CaseResult
	Serial   bool                    // run cases one at a time (checks that use all cores themselves)
	Finish   func(c *Ctx, ev *Evidence) // optional: add check-specific evidence / extra verdicts
	Known    func(c *Ctx)            // replays open known findings, printing KNOWN-FINDING lines
	Pre      func(c *Ctx) error      // optional set-up
}

// Ctx is the run context of a check.
type Ctx struct {
	ID    string
	Tier  string
	Seed  int64
	Start time.Time
	mu    sync.Mutex
	// extra violations / known findings reported outside cases
	extraViol []string
	Extra     map[string]interface{}
	KnownOut  []string
	known     []KnownFinding
}

// Rng returns the PRNG of case idx (and sub-stream sub).
func (c *Ctx) Rng(idx int, sub int) *rand.Rand {
	h := fnv.New64a()
	fmt.Fprintf(h, "%d|%s|%d|%d", c.Seed, c.ID, idx, sub)
	return rand.New(rand.NewSource(int64(h.Sum64())))
}

// Evidence mirrors EVIDENCE.schema.json.
type Evidence struct {
	PropertyID  string                 `json:"property_id"`
	Tier        string                 `json:"tier"`
	Seed        int64                  `json:"seed"`
	Level       string                 `json:"level"`
	Coverage    map[string]interface{} `json:"coverage"`
	Assumptions []string               `json:"assumptions"`
	WallS       float64                `json:"wall_s"`
	Violations  int                    `json:"violations"`
}

func verifDir() string {
	if d := os.Getenv("VERIF_DIR"); d != "" {
		return d
	}
	return "/verif"
}

// KnownFinding is one entry of known_findings.json.
type KnownFinding struct {
	ID        string                 `json:"id"`
	Property  string                 `json:"property"`
	Status    string                 `json:"status"` // open | fixed
	Commit    string                 `json:"commit,omitempty"`
	WhatFails string                 `json:"what_fails"`
	Witness   map[string]interface{} `json:"witness"`
	Signature map[string]interface{} `json:"signature,omitempty"`
}

func loadKnown() []KnownFinding {
	b, err := os.ReadFile(filepath.Join(verifDir(), "known_findings.json"))
	if err != nil {
		return nil
	}
	var f struct {
		Findings []KnownFinding `json:"findings"`
	}
	if err := json.Unmarshal(b, &f); err != nil {
		fmt.Fprintln(os.Stderr, "known_findings.json:", err)
		return nil
	}
	return f.Findings
}

// OpenFindings returns the open known findings of this property.
func (c *Ctx) OpenFindings() []KnownFinding {
	var r []KnownFinding
	for _, k := range c.known {
		if k.Property == c.ID && k.Status == "open" {
			r = append(r, k)
		}
	}
	return r
}

// ReportKnown prints the KNOWN-FINDING line of an open finding that still reproduces.
func (c *Ctx) ReportKnown(k KnownFinding) {
	line := fmt.Sprintf("KNOWN-FINDING: property=%s %s: %s", k.Property, k.ID, k.WhatFails)
	c.mu.Lock()
	for _, l := range c.KnownOut {
		if l == line {
			c.mu.Unlock()
			return
		}
	}
	c.KnownOut = append(c.KnownOut, line)
	c.mu.Unlock()
	fmt.Println(line)
}

// RunCheck drives a check and returns the process exit code.
func RunCheck(chk *Check, tier string, seed int64, replay string, nOverride int) int {
	c := &Ctx{ID: chk.ID, Tier: tier, Seed: seed, Start: time.Now(), Extra: map[string]interface{}{}}
	c.known = loadKnown()
	if replay != "" {
		return replayCase(chk, c, replay)
	}
	if chk.Pre != nil {
		if err := chk.Pre(c); err != nil {
			fmt.Printf("INCONCLUSIVE %s: set-up failed: %v\n", chk.ID, err)
			return 2
		}
	}
	if chk.Known != nil {
		chk.Known(c)
	}
	n := chk.Cases(tier)
	if nOverride > 0 {
		n = nOverride
	}
	results := make([]*CaseResult, n)
	workers := runtime.NumCPU()
	if chk.Serial {
		workers = 1
	}
	if w := os.Getenv("VERIF_WORKERS"); w != "" {
		fmt.Sscan(w, &workers)
	}
	var wg sync.WaitGroup
	next := 0
	var nmu sync.Mutex
	var violating int64
	for w := 0; w < workers; w++ {
		wg.Add(1)
		go func() {
			defer wg.Done()
			for {
				nmu.Lock()
				i := next
				next++
				nmu.Unlock()
				if i >= n {
					return
				}
				// a tree that violates the property in 40 cases needs no further cases (only the
				// first 20 violations are printed); this keeps a check on a broken tree short
				if atomic.LoadInt64(&violating) >= 40 {
					return
				}
				results[i] = runCaseSafe(chk, c, i)
				if len(results[i].Violations) > 0 {
					atomic.AddInt64(&violating, 1)
				}
			}
		}()
	}
	wg.Wait()
	return finish(chk, c, results)
}

func runCaseSafe(chk *Check, c *Ctx, i int) (res *CaseResult) {
	defer func() {
		if p := recover(); p != nil {
			buf := make([]byte, 4096)
			buf = buf[:runtime.Stack(buf, false)]
			res = &CaseResult{Index: i}
			res.inconclusive(fmt.Sprintf("harness panic: %v", p))
			fmt.Fprintf(os.Stderr, "harness panic in %s case %d: %v\n%s\n", chk.ID, i, p, buf)
		}
	}()
	res = chk.Run(c, i)
	if res == nil {
		res = &CaseResult{}
	}
	res.Index = i
	return res
}

func finish(chk *Check, c *Ctx, results []*CaseResult) int {
	evals := 0
	nontriv := map[string]bool{}
	inconc := map[string]int{}
	counters := map[string]int{}
	sets := map[string]map[string]bool{}
	var samples []interface{}
	nviol := 0
	var violLines []string
	for _, r := range results {
		if r == nil {
			continue
		}
		evals += r.Evals
		for _, k := range r.NonTrivial {
			nontriv[k] = true
		}
		for k, v := range r.Inconclusive {
			inconc[k] += v
		}
		for k, v := range r.Counters {
			if strings.HasPrefix(k, "max_") {
				if v > counters[k] {
					counters[k] = v
				}
				continue
			}
			counters[k] += v
		}
		for name, elems := range r.SetsMany {
			if sets[name] == nil {
				sets[name] = map[string]bool{}
			}
			for _, e := range elems {
				sets[name][e] = true
			}
		}
		if r.Sample != nil && len(samples) < 3 {
			samples = append(samples, r.Sample)
		}
		for vi, v := range r.Violations {
			nviol++
			if len(violLines) < 20 {
				path := writeReplay(c, r.Index, vi, v)
				line := fmt.Sprintf("VIOLATION property=%s replay=%s", c.ID, path)
				violLines = append(violLines, line)
				fmt.Printf("%s\n  case %d: %s\n", line, r.Index, v.Msg)
			}
		}
	}
	ev := &Evidence{PropertyID: c.ID, Tier: c.Tier, Seed: c.Seed, Level: chk.Level, Assumptions: chk.Assume,
		Coverage: map[string]interface{}{}}
	ev.Coverage["evaluations"] = evals
	ev.Coverage["distinct_nontrivial"] = len(nontriv)
	ev.Coverage["rule"] = chk.Rule
	ev.Coverage["cases"] = len(results)
	if len(samples) == 0 {
		// no case volunteered a written-out sample: describe the first case that ran
		for _, r := range results {
			if r != nil && r.Evals > 0 {
				samples = append(samples, map[string]interface{}{"case_index": r.Index, "executions": r.Evals, "counters": r.Counters, "note": "replay with --n / the case index to see it in full"})
				break
			}
		}
		if len(samples) == 0 {
			samples = []interface{}{}
		}
	}
	ev.Coverage["samples"] = samples
	ev.Coverage["inconclusive"] = inconc
	ev.Coverage["counters"] = counters
	dist := map[string]int{}
	for name, s := range sets {
		dist[name] = len(s)
		if len(s) <= 40 {
			var l []string
			for e := range s {
				l = append(l, e)
			}
			sort.Strings(l)
			ev.Coverage["set_"+name] = l
		}
	}
	ev.Coverage["distinct"] = dist
	ev.Coverage["known_findings_reproduced"] = c.KnownOut
	for k, v := range c.Extra {
		ev.Coverage[k] = v
	}
	if chk.Finish != nil {
		chk.Finish(c, ev)
	}
	for _, l := range c.extraViol {
		nviol++
		fmt.Println(l)
	}
	ev.Violations = nviol
	ev.WallS = time.Since(c.Start).Seconds()
	writeEvidence(c, ev)
	ninc := 0
	for k, v := range inconc {
		ninc += v
		fmt.Printf("INCONCLUSIVE %s: %d x %s\n", c.ID, v, k)
	}
	fmt.Printf("%s %s seed=%d: cases=%d evaluations=%d distinct_nontrivial=%d inconclusive=%d violations=%d wall=%.1fs\n",
		c.ID, c.Tier, c.Seed, len(results), evals, len(nontriv), ninc, nviol, ev.WallS)
	if nviol > 0 {
		return 1
	}
	if evals == 0 || len(nontriv) < 2 {
		fmt.Printf("INCONCLUSIVE %s: nothing conclusive was observed (evaluations=%d, non-trivial=%d)\n", c.ID, evals, len(nontriv))
		return 2
	}
	return 0
}

// ExtraViolation reports a violation found outside the case loop.
func (c *Ctx) ExtraViolation(msg string, detail interface{}) {
	c.mu.Lock()
	defer c.mu.Unlock()
	path := writeReplay(c, -1, len(c.extraViol), CaseViolation{Msg: msg, Detail: detail})
	c.extraViol = append(c.extraViol, fmt.Sprintf("VIOLATION property=%s replay=%s\n  %s", c.ID, path, msg))
}

func writeEvidence(c *Ctx, ev *Evidence) {
	dir := filepath.Join(verifDir(), "evidence")
	if d := os.Getenv("VERIF_EVIDENCE_DIR"); d != "" {
		dir = d
	}
	os.MkdirAll(dir, 0o755)
	b, err := json.MarshalIndent(ev, "", " ")
	if err != nil {
		fmt.Fprintln(os.Stderr, "evidence:", err)
		return
	}
	if err := os.WriteFile(filepath.Join(dir, c.ID+".json"), b, 0o644); err != nil {
		fmt.Fprintln(os.Stderr, "evidence:", err)
	}
}

type replayFile struct {
	Property string        `json:"property"`
	Tier     string        `json:"tier"`
	Seed     int64         `json:"seed"`
	Index    int           `json:"index"`
	Viol     CaseViolation `json:"violation"`
}

func writeReplay(c *Ctx, idx, vi int, v CaseViolation) string {
	dir := filepath.Join(verifDir(), "replays", c.ID)
	if d := os.Getenv("VERIF_REPLAY_DIR"); d != "" {
		dir = filepath.Join(d, c.ID)
	}
	os.MkdirAll(dir, 0o755)
	name := fmt.Sprintf("seed%d_%s_case%d_%d.json", c.Seed, c.Tier, idx, vi)
	path := filepath.Join(dir, name)
	b, _ := json.MarshalIndent(replayFile{Property: c.ID, Tier: c.Tier, Seed: c.Seed, Index: idx, Viol: v}, "", " ")
	os.WriteFile(path, b, 0o644)
	return path
}

func replayCase(chk *Check, c *Ctx, path string) int {
	b, err := os.ReadFile(path)
	if err != nil {
		fmt.Println("replay:", err)
		return 2
	}
	var rf replayFile
	if err := json.Unmarshal(b, &rf); err != nil {
		fmt.Println("replay:", err)
		return 2
	}
	c.Seed, c.Tier = rf.Seed, rf.Tier
	if chk.Pre != nil {
		if err := chk.Pre(c); err != nil {
			fmt.Println("replay: set-up failed:", err)
			return 2
		}
	}
	if rf.Index < 0 {
		fmt.Println("this violation was found outside the case loop; re-run the check with the same seed and tier:", rf.Viol.Msg)
		return 2
	}
	res := runCaseSafe(chk, c, rf.Index)
	if len(res.Violations) == 0 {
		fmt.Printf("replay of %s case %d (seed %d, tier %s): no violation\n", c.ID, rf.Index, rf.Seed, rf.Tier)
		return 0
	}
	for _, v := range res.Violations {
		fmt.Printf("VIOLATION property=%s replay=%s\n  case %d: %s\n", c.ID, path, rf.Index, v.Msg)
		if v.Detail != nil {
			d, _ := json.MarshalIndent(v.Detail, "  ", " ")
			fmt.Printf("  %s\n", d)
		}
	}
	return 1
}

func trunc(s string, n int) string {
	if len(s) <= n {
		return s
	}
	return s[:n] + "…"
}

func joinViol(vs []Violation) string {
	var l []string
	for _, v := range vs {
		l = append(l, v.String())
	}
	return strings.Join(l, "; ")
}
