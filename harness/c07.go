package main

// C07: a rule's meaning never depends on which other rules share its knowledge base.
// Self-differential: a rule built alone vs built together with a near-identical sibling (one
// mutation from a catalogue), in every build order; compared by the canonical form of the
// engine AST reachable from the rule's entry and by FetchMatchingRules membership / single
// firing results on fact states that include values between the two constants.

import (
	"fmt"
	"math"
	"math/rand"
	"reflect"
	"strings"

	"github.com/hyperjumptech/grule-rule-engine/ast"
)

func cloneExpr(e *Expr) *Expr {
	if e == nil {
		return nil
	}
	c := *e
	if e.Lit != nil {
		l := *e.Lit
		c.Lit = &l
	}
	c.L, c.R, c.Recv = cloneExpr(e.L), cloneExpr(e.R), cloneExpr(e.Recv)
	if e.Args != nil {
		c.Args = make([]*Expr, len(e.Args))
		for i, a := range e.Args {
			c.Args[i] = cloneExpr(a)
		}
	}
	c.Path = clonePath(e.Path)
	return &c
}

func clonePath(p *Path) *Path {
	if p == nil {
		return nil
	}
	c := &Path{Root: p.Root}
	for _, s := range p.Steps {
		c.Steps = append(c.Steps, Step{F: s.F, Sel: cloneExpr(s.Sel)})
	}
	return c
}

func cloneRule(r *Rule) *Rule {
	c := *r
	c.When = cloneExpr(r.When)
	c.Then = nil
	for _, s := range r.Then {
		cs := *s
		cs.RHS = cloneExpr(s.RHS)
		cs.Call = cloneExpr(s.Call)
		cs.Target = clonePath(s.Target)
		c.Then = append(c.Then, &cs)
	}
	return &c
}

// slots returns pointers to every expression slot of a rule (condition and right-hand sides).
func ruleSlots(r *Rule) []**Expr {
	var out []**Expr
	var walk func(p **Expr)
	walk = func(p **Expr) {
		if *p == nil {
			return
		}
		out = append(out, p)
		e := *p
		walk(&e.L)
		walk(&e.R)
		if e.Op == "member" && e.L != nil {
			for i := range e.L.Args {
				walk(&e.L.Args[i])
			}
		}
		for i := range e.Args {
			walk(&e.Args[i])
		}
		if e.Recv != nil && e.Recv.Op == "call" {
			for i := range e.Recv.Args {
				walk(&e.Recv.Args[i])
			}
		}
		if e.Path != nil {
			for i := range e.Path.Steps {
				if e.Path.Steps[i].Sel != nil {
					walk(&e.Path.Steps[i].Sel)
				}
			}
		}
	}
	walk(&r.When)
	for _, s := range r.Then {
		if s.RHS != nil {
			walk(&s.RHS)
		}
	}
	return out
}

// mutate applies one mutation of the catalogue to a copy of rule; returns nil when the chosen
// slot offers none. targets collects (path, values) worth probing (values between constants).
type probeTarget struct {
	Path *Path
	Vals []Val
}

func mutateRule(r *rand.Rand, rule *Rule) (*Rule, string, []probeTarget) {
	m := cloneRule(rule)
	slots := ruleSlots(m)
	var targets []probeTarget
	for tries := 0; tries < 30; tries++ {
		p := slots[r.Intn(len(slots))]
		e := *p
		switch {
		case e.Op == "lit" && e.Lit.K == TFloat:
			f := e.Lit.F
			var g float64
			kind := ""
			switch r.Intn(7) {
			case 0:
				g, kind = f+1e-7, "float differing beyond the 6th decimal"
			case 1:
				g, kind = f+1e-9, "float differing at the 9th decimal"
			case 2:
				g, kind = math.Nextafter(f, math.Inf(1)), "float differing in the last bit (15+ decimals)"
			case 3:
				g, kind = -f, "float sign"
			case 4:
				g, kind = f*10, "float exponent"
			case 5:
				g, kind = f+1e-15*math.Max(1, math.Abs(f)), "float differing at the 15th digit"
			default:
				if f == math.Trunc(f) && math.Abs(f) < 1e15 {
					*p = LitI(int64(f))
					(*p).Par = e.Par
					return m, "1.0 vs 1 (float vs int constant)", targets
				}
				g, kind = f+0.0000005, "float differing at the 7th decimal"
			}
			if g == f {
				continue
			}
			e.Lit.F = g
			return m, kind, targets
		case e.Op == "lit" && e.Lit.K == TInt:
			i := e.Lit.I
			switch r.Intn(6) {
			case 0:
				e.Lit.I = i + 1
				return m, "int differing in the last digit", targets
			case 1:
				if i == 0 {
					continue
				}
				e.Lit.I = -i
				return m, "int sign", targets
			case 2:
				*p = LitF(float64(i))
				(*p).Par = e.Par
				return m, "1 vs 1.0 (int vs float constant)", targets
			case 3:
				e.Lit.I = i + 10
				return m, "int differing in the tens digit", targets
			case 4:
				e.Lit.I = i*10 + 1
				return m, "int with one more digit", targets
			default:
				continue
			}
		case e.Op == "lit" && e.Lit.K == TStr:
			s := e.Lit.S
			switch r.Intn(8) {
			case 0:
				e.Lit.S = s + "x"
			case 1:
				e.Lit.S = s + "\""
			case 2:
				e.Lit.S = s + "'"
			case 3:
				e.Lit.S = s + "\")"
			case 4:
				e.Lit.S = s + ","
			case 5:
				e.Lit.S = s + "->"
			case 6:
				e.Lit.S = strings.ToUpper(s) + "("
			default:
				e.Lit.S = s + " "
			}
			return m, "string constant differing in one character (quotes, brackets, commas)", targets
		case e.Op == "lit" && e.Lit.K == TBool:
			e.Lit.B = !e.Lit.B
			return m, "boolean constant", targets
		case e.Op == "member":
			// another member of the same method result
			if e.Fn == "X" {
				e.Fn, e.GK = "N", int(reflect.Int32)
			} else {
				e.Fn, e.GK = "X", int(reflect.Int64)
			}
			return m, "member of a method result", targets
		case e.Op == "not":
			*p = e.L
			return m, "negation removed", targets
		case isBinOp(e.Op):
			switch r.Intn(4) {
			case 0: // operator swap within the class
				swap := map[string][]string{"+": {"-", "*"}, "-": {"+"}, "*": {"+", "-"}, "/": {"*"}, "%": {"+"}, "&": {"|"}, "|": {"&"},
					"<": {"<=", ">"}, "<=": {"<", ">="}, ">": {">=", "<"}, ">=": {">", "<="}, "==": {"!="}, "!=": {"=="}, "&&": {"||"}, "||": {"&&"}}
				if e.Ty == TStr {
					continue
				}
				alts := swap[e.Op]
				e.Op = alts[r.Intn(len(alts))]
				if e.Op == "/" || e.Op == "*" && e.Ty == TFloat {
					e.Ty = TFloat
				}
				return m, "operator swapped", targets
			case 1: // operand order
				if e.Op == "+" && e.Ty != TStr || e.Op == "*" || e.Op == "==" || e.Op == "!=" || e.Op == "&&" || e.Op == "||" || e.Op == "&" || e.Op == "|" {
					continue // commutative: not a semantic difference
				}
				if e.Ty == TStr && (e.L.Ty == TBool || e.R.Ty != TStr) {
					continue
				}
				e.L, e.R = e.R, e.L
				return m, "operand order", targets
			case 2: // negation added
				if e.Ty != TBool {
					continue
				}
				*p = Not(e)
				return m, "negation added", targets
			default:
				continue
			}
		case e.Op == "var" && e.Path != nil:
			// selector constant / expression, member name
			for i := range e.Path.Steps {
				st := &e.Path.Steps[i]
				if st.Sel != nil && st.Sel.Op == "lit" && st.Sel.Lit.K == TInt && r.Intn(2) == 0 {
					if r.Intn(2) == 0 {
						st.Sel = LitI(1 - st.Sel.Lit.I%2)
						return m, "selector constant", targets
					}
					st.Sel = idxVar("F")
					return m, "selector constant vs expression", targets
				}
				if st.Sel != nil && st.Sel.Op == "lit" && st.Sel.Lit.K == TStr && r.Intn(2) == 0 {
					if st.Sel.Lit.S == "k1" {
						st.Sel = LitS("k2")
					} else if st.Sel.Lit.S == "k2" {
						st.Sel = LitS("k1")
					} else if st.Sel.Lit.S == "a" {
						st.Sel = LitS("b")
					} else {
						continue
					}
					return m, "map selector constant", targets
				}
			}
			if len(e.Path.Steps) == 1 && e.Path.Steps[0].Sel == nil && e.Ty == TInt && reflect.Kind(e.GK) == reflect.Int64 && e.Path.Root == "F" {
				alts := []string{"A", "AB", "A1", "B", "C", "E", "P"}
				n := alts[r.Intn(len(alts))]
				if n == e.Path.Steps[0].F {
					continue
				}
				e.Path.Steps[0].F = n
				return m, "member name", targets
			}
			if e.Path.Root == "F" && r.Intn(3) == 0 && len(e.Path.Steps) >= 1 {
				// same member of the other fact
				e.Path.Root = "G"
				if _, err := ref.readPath(e.Path, GenState(rand.New(rand.NewSource(1)))); err != nil {
					e.Path.Root = "F"
					continue
				}
				return m, "same member of another fact", targets
			}
			continue
		case e.Op == "call" && e.Recv != nil && e.Recv.Op == "var" && e.Recv.Path.Root == "T":
			switch e.Fn {
			case "Sum", "Cat":
				if r.Intn(2) == 0 && len(e.Args) > 1 {
					e.Args = e.Args[:len(e.Args)-1]
					return m, "argument count (variadic)", targets
				}
				e.Args = append(e.Args, cloneExpr(e.Args[len(e.Args)-1]))
				return m, "argument count (variadic)", targets
			case "Add3", "Cnt2", "Tag2":
				e.Args[len(e.Args)-2], e.Args[len(e.Args)-1] = e.Args[len(e.Args)-1], e.Args[len(e.Args)-2]
				if ExprText(e.Args[0]) == ExprText(e.Args[1]) && len(e.Args) == 2 {
					continue
				}
				return m, "argument order", targets
			case "IsPos":
				*p = CallE(tool(), "Neg", TBool, reflect.Bool, Bin(">", TBool, e.Args[0], LitI(0)))
				return m, "method name", targets
			case "Cnt":
				e.Fn = "Tag"
				e.Args = append([]*Expr{LitI(1)}, e.Args...)
				return m, "method name", targets
			}
			continue
		case e.Op == "call" && e.Recv != nil && (e.Fn == "HasPrefix" || e.Fn == "HasSuffix" || e.Fn == "Contains"):
			e.Fn = map[string]string{"HasPrefix": "HasSuffix", "HasSuffix": "Contains", "Contains": "HasPrefix"}[e.Fn]
			return m, "built-in function name", targets
		}
	}
	return nil, "", nil
}

// craftedPair: rules whose argument lists imitate snapshot syntax (D5 family).
func craftedPair(r *rand.Rand) (*Rule, *Rule, string) {
	if k := r.Intn(4); k == 3 {
		// two long string constants of equal length that differ only near the end / in the middle
		n := []int{70, 100, 130, 300}[r.Intn(4)]
		base := strings.Repeat("abcdefghij", n/10)
		pos := []int{n - 1, n - 2, n / 2, 65, 97}[r.Intn(5)]
		if pos >= n {
			pos = n - 1
		}
		other := base[:pos] + "Z" + base[pos+1:]
		mkl := func(name, lit string) *Rule {
			return &Rule{Name: name, Desc: "crafted", When: Bin("!=", TBool, VarE(P("F.S1"), TStr, reflect.String), LitS(lit)),
				Then: []*Stmt{Assign(P("F.S2"), "=", LitS(lit)), {Kind: "retract", Name: name}}}
		}
		return mkl("A", base), mkl("B", other), "long string constants differing in one character"
	} else if k == 0 {
		// two rules that differ only in WHICH member of the same method result they read
		k := int64(r.Intn(5))
		arg := []string{"F.A", "F.B", "F.Idx"}[r.Intn(3)]
		mkm := func(name, member string, gk reflect.Kind) *Rule {
			me := func() *Expr {
				return &Expr{Op: "member", Ty: TInt, GK: int(gk), Fn: member,
					L: CallE(tool(), "Ptr", TAny, reflect.Ptr, LitI(0), VarE(P(arg), TInt, reflect.Int64))}
			}
			return &Rule{Name: name, Desc: "crafted", When: Bin(">=", TBool, me(), LitI(k)),
				Then: []*Stmt{Assign(P("F.C"), "=", me()), {Kind: "retract", Name: name}}}
		}
		return mkm("A", "X", reflect.Int64), mkm("B", "N", reflect.Int32), "member of a method result"
	}
	a, b := []string{"a", "x1", "", "q"}[r.Intn(4)], []string{"b", "y", "zz"}[r.Intn(3)]
	glue := []string{`")))),E(EA(A(C(string->"`, `","`, `"),E(EA(A(C(string->"`, `\"),E(EA(A(C(string->\"`, `", "`, "\"),C(string->\"", `\",\"`}[r.Intn(7)]
	mk := func(name string, args ...*Expr) *Rule {
		return &Rule{Name: name, Desc: "crafted", When: Bin("==", TBool, CallE(CallE(tool(), "Cat", TStr, reflect.String, args...), "Len", TInt, reflect.Int), LitI(int64(r.Intn(9)))),
			Then: []*Stmt{Assign(P("F.S1"), "=", CallE(tool(), "Cat", TStr, reflect.String, args...)), {Kind: "retract", Name: name}}}
	}
	return mk("A", LitS(a), LitS(b)), mk("B", LitS(a+glue+b)), "crafted string imitating snapshot syntax"
}

type aloneResult struct {
	canon   string
	matched []bool
	finals  []string
	errs    []string
}

func c07Observe(lib *ast.KnowledgeLibrary, name string, remove []string, states []State) (*aloneResult, error) {
	res := &aloneResult{}
	base := lib.GetKnowledgeBase(kbName, kbVer)
	re, ok := base.RuleEntries[name]
	if !ok {
		return nil, fmt.Errorf("rule %s missing from the knowledge base", name)
	}
	res.canon = CanonEntry(re, false) // without GRL text: a shared node legitimately keeps the spelling of its first occurrence
	for _, st := range states {
		kb, err := NewInstance(lib)
		if err != nil {
			return nil, fmt.Errorf("NewKnowledgeBaseInstance: %w", err)
		}
		for _, n := range remove {
			kb.RemoveRuleEntry(n)
		}
		f := Run(kb, nil, CopyStateLive(st), RunCfg{Fetch: true, NoSnap: true})
		m := false
		for _, n := range f.Matched {
			if n == name {
				m = true
			}
		}
		res.matched = append(res.matched, m)
		x := Run(kb, nil, CopyStateLive(st), RunCfg{MaxCycle: 3, NoSnap: true})
		res.finals = append(res.finals, hashStr(Canon(x.Final)))
		ec := errClass(x.Err)
		if x.Panic != nil {
			ec = "panic"
		}
		res.errs = append(res.errs, ec)
	}
	return res, nil
}

func (a *aloneResult) diff(b *aloneResult) string {
	if a.canon != b.canon {
		return "the AST built for the rule differs: " + DiffCanon(a.canon, b.canon)
	}
	for i := range a.matched {
		if a.matched[i] != b.matched[i] {
			return fmt.Sprintf("FetchMatchingRules membership differs on fact state %d (alone %v, together %v)", i, a.matched[i], b.matched[i])
		}
		if a.finals[i] != b.finals[i] || a.errs[i] != b.errs[i] {
			return fmt.Sprintf("the result of executing the rule differs on fact state %d (alone: %s, together: %s)", i, a.errs[i], b.errs[i])
		}
	}
	return ""
}

func (a *aloneResult) behaviourDiffers(b *aloneResult) bool {
	for i := range a.matched {
		if a.matched[i] != b.matched[i] || a.finals[i] != b.finals[i] || a.errs[i] != b.errs[i] {
			return true
		}
	}
	return false
}

var c07Opts = TraceOpts{MinRules: 1, MaxRules: 1, MinPool: 4, MaxPool: 8, Calls: true, Strs: true, Times: true, Depth: 3, SelfRetract: true}

func runC07Case(c *Ctx, idx int) *CaseResult {
	cr := &CaseResult{}
	r := c.Rng(idx, 0)
	var ra, rb *Rule
	kind := ""
	if idx%10 == 9 {
		ra, rb, kind = craftedPair(r)
	} else {
		prog := GenTraceProgram(r, c07Opts)
		ra = prog.Rules[0]
		ra.Name = "A"
		for _, s := range ra.Then {
			if s.Kind == "retract" {
				s.Name = "A"
			}
		}
		// seed constants with many decimals so that near-identical siblings exist
		for _, p := range ruleSlots(ra) {
			if (*p).Op == "lit" && (*p).Lit.K == TFloat && r.Intn(2) == 0 {
				(*p).Lit.F += []float64{0.1234567, 0.0000001, 0.3, 1e-12}[r.Intn(4)]
			}
		}
		var m *Rule
		m, kind, _ = mutateRule(r, ra)
		if m == nil {
			cr.inc("no_mutation_applicable")
			return cr
		}
		rb = m
		rb.Name = "B"
		for _, s := range rb.Then {
			if s.Kind == "retract" {
				s.Name = "B"
			}
		}
	}
	cr.set("mutation_kinds", kind)
	style := &Style{R: c.Rng(idx, 1), LitNot: r.Intn(2) == 0}
	ta, tb := style.PrintRule(ra), style.PrintRule(rb)
	// fact states: random ones plus states around every numeric constant of the two rules
	var states []State
	for i := 0; i < 8; i++ {
		states = append(states, GenState(c.Rng(idx, 100+i)))
	}
	states = append(states, constantStates(ra, rb, c.Rng(idx, 50))...)
	// alone
	la, err := BuildLib(ta)
	if err != nil {
		cr.inconclusive("base rule rejected by the builder (judged by C17)")
		return cr
	}
	lb, err := BuildLib(tb)
	if err != nil {
		cr.inc("sibling_rejected_by_builder")
		return cr
	}
	aloneA, err := c07Observe(la, "A", nil, states)
	if err != nil {
		cr.inconclusive("rule alone: " + trunc(err.Error(), 60))
		return cr
	}
	aloneB, err := c07Observe(lb, "B", nil, states)
	if err != nil {
		cr.inconclusive("sibling alone: " + trunc(err.Error(), 60))
		return cr
	}
	cr.Evals += 2 * len(states)
	orders := [][]string{{ta + "\n" + tb}, {tb + "\n" + ta}, {ta, tb}, {tb, ta}}
	for oi, texts := range orders {
		lib, err := BuildLib(texts...)
		if err != nil {
			cr.violate(fmt.Sprintf("two rules that build alone are rejected together (order %d, %s): %v", oi, kind, err), map[string]interface{}{"rule_a": ta, "rule_b": tb})
			return cr
		}
		togA, err := c07Observe(lib, "A", []string{"B"}, states)
		if err == nil {
			var togB *aloneResult
			togB, err = c07Observe(lib, "B", []string{"A"}, states)
			if err == nil {
				cr.Evals += 2 * len(states)
				if d := aloneA.diff(togA); d != "" {
					cr.violate(fmt.Sprintf("rule A built together with its sibling (%s; build order %d) differs from A built alone: %s", kind, oi, d), map[string]interface{}{"rule_a": ta, "rule_b": tb, "order": oi})
					return cr
				}
				if d := aloneB.diff(togB); d != "" {
					cr.violate(fmt.Sprintf("rule B built together with its sibling (%s; build order %d) differs from B built alone: %s", kind, oi, d), map[string]interface{}{"rule_a": ta, "rule_b": tb, "order": oi})
					return cr
				}
			}
		}
		if err != nil {
			cr.violate(fmt.Sprintf("the knowledge base holding both siblings (%s; order %d) is unusable: %v", kind, oi, err), map[string]interface{}{"rule_a": ta, "rule_b": tb})
			return cr
		}
	}
	if aloneA.behaviourDiffers(aloneB) {
		cr.NonTrivial = append(cr.NonTrivial, hashStr(ta+tb))
		cr.inc("pairs_semantically_different_on_the_probed_states")
	} else {
		cr.inc("pairs_not_discriminated_by_the_probed_states")
	}
	if cr.Sample == nil && idx%53 == 0 {
		cr.Sample = map[string]interface{}{"mutation": kind, "rule_a": trunc(ta, 500), "rule_b": trunc(tb, 500), "fact_states": len(states)}
	}
	return cr
}

// constantStates builds states in which every variable that is compared with a numeric constant
// takes the constant's value, the sibling's value and a value in between.
func constantStates(ra, rb *Rule, r *rand.Rand) []State {
	var out []State
	type cmpSite struct {
		p *Path
		v float64
	}
	var sites []cmpSite
	collect := func(rule *Rule) {
		rule.When.Walk(func(e *Expr) {
			if isBinOp(e.Op) && e.L != nil && e.R != nil {
				for _, pr := range [][2]*Expr{{e.L, e.R}, {e.R, e.L}} {
					if pr[0].Op == "var" && pr[1].Op == "lit" && isNum(pr[1].Lit.K) && pr[0].Path != nil && len(pr[0].Path.Steps) > 0 {
						sites = append(sites, cmpSite{pr[0].Path, toF(*pr[1].Lit)})
					}
				}
			}
		})
	}
	collect(ra)
	collect(rb)
	for i := 0; i < len(sites) && len(out) < 8; i++ {
		for j := i; j < len(sites) && len(out) < 8; j++ {
			if PathText(sites[i].p) != PathText(sites[j].p) {
				continue
			}
			for _, v := range []float64{sites[i].v, sites[j].v, (sites[i].v + sites[j].v) / 2} {
				st := GenState(rand.New(rand.NewSource(r.Int63())))
				val := vF(v)
				if v == math.Trunc(v) && math.Abs(v) < 1e15 {
					val = vI(int64(v))
				}
				if err := ref.store(sites[i].p, st, val); err == nil {
					out = append(out, st)
				}
			}
		}
	}
	return out
}

func init() {
	register(&Check{
		ID: "C07", Level: "exploration",
		Rule: "base rule from the expression / assignment generators + one sibling obtained by ONE mutation of a catalogue (float constants differing at the 7th / 9th / 15th digit or last bit, sign, exponent, 1 vs 1.0, ints differing in one digit, strings differing in one character incl. quotes, brackets, commas and '->', crafted strings imitating snapshot syntax, operator swaps, negation toggles, operand order, selector constant / expression, argument order and count, method / function / member names, same member of another fact); every build order (AB, BA in one resource, two resources both ways); each rule alone vs together (the sibling removed from the instance) compared by canonical AST form of its entry and by FetchMatchingRules membership + execution result on 8 random fact states plus states at / between the two constants; non-trivial = distinct pairs whose alone-behaviours differ on the probed states (a merge would be observable); every tenth case is a crafted pair: strings imitating snapshot syntax, two members of one method result, long string constants (70-300 bytes) differing in one character",
		Assume: []string{"self-differential: no reference semantics involved", "canonical printer (canon_kb.go) is injective on the exported AST fields"},
		Cases:  tierN(1500, 50000),
		Run:    runC07Case,
	})
}
