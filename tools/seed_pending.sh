#!/bin/bash
# usage: tools/seed_pending.sh <seedout-dir> <mN>... - evaluates delivered changes that are not filed yet
cd "$(dirname "$0")/.."
OUT=$1; shift
for i in $(seq -w 1 20); do
  P=C$i
  for m in "$@"; do
    if [ -f $OUT/$P/$m/patch.diff ] && [ -f $OUT/$P/$m/notes.md ] && [ ! -f seeded/$P-$m/meta.json ]; then
      # the agent must be done with this one: its worktree is clean or gone
      tools/seed_wave.sh $OUT $P $m
    fi
  done
done
