package main

// C13: shared sub-expressions are evaluated at most once between invalidations.
// Counted pure methods carry an id identifying their call text; the monitor compares the number
// of logged calls per id with 1 + the number of invalidation events concerning that text, the
// events being taken from the validated trace (executed statements of the fired rules).

import (
	"fmt"
	"math/rand"
	"reflect"
	"sort"
	"strings"
)

type tagSite struct {
	ID    int64
	Call  *Expr   // the call expression (one object, shared by every use)
	Text  string  // canonical text
	Vars  []*Path // variable paths occurring in receiver or arguments
	Rules map[string]bool
	Ty    Ty
	// ProgVars: plain texts of the simple dotted variables that occur in the program
	ProgVars map[string]bool
}

func pathsOf(e *Expr) []*Path {
	var ps []*Path
	e.Walk(func(x *Expr) {
		if x.Op == "var" && x.Path != nil {
			ps = append(ps, x.Path)
		}
	})
	return ps
}

// overlap: one path is a prefix of the other, where a selector step matches any selector or
// member name (the generous reading: never accuses correct code).
func overlap(a, b *Path) bool {
	if a.Root != b.Root {
		return false
	}
	n := len(a.Steps)
	if len(b.Steps) < n {
		n = len(b.Steps)
	}
	for i := 0; i < n; i++ {
		sa, sb := a.Steps[i], b.Steps[i]
		if sa.Sel != nil || sb.Sel != nil {
			continue
		}
		if sa.F != sb.F {
			return false
		}
	}
	return true
}

// invalidates: does executing statement s count as an invalidation event for site?
func invalidates(s *Stmt, site *tagSite) bool {
	switch s.Kind {
	case "assign":
		for _, v := range site.Vars {
			if overlap(s.Target, v) {
				return true
			}
			// a selector inside the variable (F.Arr[F.Idx]) is itself a variable occurrence
		}
		return false
	case "forget", "changed":
		if s.Name == "" {
			return false
		}
		if site.ProgVars[s.Name] {
			// the name is exactly a variable of the program (the engine resets that variable only):
			// it concerns the call iff that variable occurs in it (step-wise prefix overlap)
			named := P(s.Name)
			for _, v := range site.Vars {
				if overlap(named, v) {
					return true
				}
			}
			return false
		}
		if strings.Contains(site.Text, s.Name) {
			return true
		}
		for _, v := range site.Vars {
			t := PathText(v)
			if strings.Contains(t, s.Name) || strings.Contains(s.Name, t) {
				return true
			}
		}
	}
	return false
}

func genC13(r *rand.Rand) (*Program, []*tagSite) {
	o := TraceOpts{MinRules: 2, MaxRules: 12, MinPool: 3, MaxPool: 6, Control: r.Intn(2) == 0, Announce: r.Intn(3) == 0, Calls: false, Strs: true, Depth: 2, NoComplete: true}
	prog := GenTraceProgram(r, o)
	// collect int64 / string variables used by the program to build call texts over them
	var ints, strs []*Expr
	seen := map[string]bool{}
	for _, v := range catalog {
		if v.Ind || v.JSON {
			continue
		}
		used := false
		for _, rule := range prog.Rules {
			if strings.Contains(PlainStyle.PrintRule(rule), v.Text) {
				used = true
			}
		}
		if !used && r.Intn(6) != 0 {
			continue
		}
		if seen[v.Text] {
			continue
		}
		seen[v.Text] = true
		if v.Ty == TInt && v.GK == reflect.Int64 {
			ints = append(ints, v.E())
		}
		if v.Ty == TStr && v.GK == reflect.String {
			strs = append(strs, v.E())
		}
	}
	if len(ints) == 0 {
		ints = append(ints, VarE(P("F.A"), TInt, reflect.Int64))
	}
	nsites := 1 + r.Intn(3)
	var sites []*tagSite
	for i := 0; i < nsites; i++ {
		id := int64(i + 1)
		var call *Expr
		ty := TInt
		switch k := r.Intn(6); {
		case k < 3:
			call = CallE(tool(), "Tag", TInt, reflect.Int64, LitI(id), ints[r.Intn(len(ints))])
		case k < 4:
			call = CallE(tool(), "Tag2", TInt, reflect.Int64, LitI(id), ints[r.Intn(len(ints))], ints[r.Intn(len(ints))])
		case k < 5 && len(strs) > 0:
			call = CallE(tool(), "TagS", TBool, reflect.Bool, LitI(id), strs[r.Intn(len(strs))])
			ty = TBool
		default:
			// an argument that is itself an expression
			call = CallE(tool(), "Tag", TInt, reflect.Int64, LitI(id), Bin("+", TInt, ints[r.Intn(len(ints))], LitI(int64(r.Intn(3)))))
		}
		s := &tagSite{ID: id, Call: call, Text: ExprText(call), Rules: map[string]bool{}, Ty: ty}
		for _, a := range call.Args {
			s.Vars = append(s.Vars, pathsOf(a)...)
		}
		s.Vars = append(s.Vars, P("T"))
		sites = append(sites, s)
	}
	// inject every site into k rules
	for _, s := range sites {
		k := 1 + r.Intn(len(prog.Rules))
		perm := r.Perm(len(prog.Rules))[:k]
		for _, ri := range perm {
			rule := prog.Rules[ri]
			s.Rules[rule.Name] = true
			var cond *Expr
			if s.Ty == TBool {
				cond = s.Call
				if r.Intn(2) == 0 {
					cond = Not(cond)
				}
			} else {
				use := s.Call
				switch r.Intn(4) {
				case 0:
					use = Bin("+", TInt, use, LitI(int64(r.Intn(3))))
				case 1:
					use = Bin("*", TInt, LitI(2), use)
				case 2:
					use = Bin("%", TInt, use, LitI(5))
				}
				cond = Bin([]string{"<", ">", "==", "!=", "<=", ">="}[r.Intn(6)], TBool, use, LitI(int64(r.Intn(20))-5))
			}
			switch r.Intn(5) {
			case 0:
				rule.When = Bin("&&", TBool, cond, rule.When)
			case 1:
				rule.When = Bin("||", TBool, cond, rule.When)
			case 2:
				rule.When = Bin("&&", TBool, rule.When, cond)
			case 3:
				rule.When = Bin("||", TBool, rule.When, cond)
			default:
				// in a then right-hand side
				if s.Ty == TInt {
					rule.Then = append([]*Stmt{Assign(P("G.C"), "=", Bin("+", TInt, s.Call, LitI(1)))}, rule.Then...)
				} else {
					rule.Then = append([]*Stmt{Assign(P("G.T"), "=", s.Call)}, rule.Then...)
				}
			}
		}
	}
	// simple dotted variables of the program, and superfluous announcements naming some of them
	// (announcing a change that did not happen is legal and must only concern that variable)
	progVars := map[string]bool{}
	collect := func(e *Expr) {
		e.Walk(func(x *Expr) {
			if x.Op == "var" && x.Path != nil && len(x.Path.Steps) > 0 {
				simple := true
				for _, st := range x.Path.Steps {
					if st.Sel != nil {
						simple = false
					}
				}
				if simple {
					progVars[PathText(x.Path)] = true
				}
			}
		})
	}
	for _, rule := range prog.Rules {
		collect(rule.When)
		for _, st := range rule.Then {
			if st.RHS != nil {
				collect(st.RHS)
			}
			if st.Target != nil && st.Kind == "assign" {
				collect(VarE(st.Target, TAny, 0))
			}
		}
	}
	var names []string
	for n := range progVars {
		names = append(names, n)
	}
	sort.Strings(names)
	if len(names) > 0 {
		for _, rule := range prog.Rules {
			if r.Intn(3) == 0 {
				rule.Then = append(rule.Then, &Stmt{Kind: []string{"changed", "forget"}[r.Intn(2)], Name: names[r.Intn(len(names))]})
			}
		}
	}
	// statement calls that are handed a pointer (a fact, a nested struct): no invalidation event
	for _, rule := range prog.Rules {
		if r.Intn(3) == 0 {
			ptr := []string{"F.In", "G.In", "F", "G", "F.PN"}[r.Intn(5)]
			arg := VarE(P(ptr), TAny, reflect.Ptr)
			rule.Then = append(rule.Then, &Stmt{Kind: "call", Call: CallE(tool(), "Note", TAny, reflect.Invalid, arg)})
		}
	}
	for _, s := range sites {
		s.ProgVars = progVars
	}
	return prog, sites
}

// MonMemoBudget checks the per-call-text budget.
func MonMemoBudget(a *Analysis, sites []*tagSite) ([]Violation, map[int64][2]int) {
	var vs []Violation
	obs := map[int64][2]int{}
	calls := map[int64]int{}
	for _, c := range a.Res.Calls {
		if (strings.HasPrefix(c.Name, "Tag") || c.Name == "Ptr") && len(c.Args) > 0 {
			if id, ok := c.Args[0].(int64); ok {
				calls[id]++
			}
		}
	}
	for _, s := range sites {
		budget := 1
		for _, ci := range a.Cycles {
			if len(ci.SetRules) == 0 {
				continue
			}
			rule := a.Prog.Rule(ci.SetRules[0])
			if rule == nil {
				continue
			}
			for _, st := range rule.Then {
				if invalidates(st, s) {
					budget++
				}
			}
		}
		obs[s.ID] = [2]int{calls[s.ID], budget}
		if calls[s.ID] > budget {
			vs = append(vs, Violation{"MemoBudget", 0, "", fmt.Sprintf("%s was called %d times in one Execute; 1 + %d invalidation events allow %d (it occurs in %d rules, run of %d cycles)", s.Text, calls[s.ID], budget-1, budget, len(s.Rules), len(a.Cycles))})
		}
	}
	return vs, obs
}

func runC13Case(c *Ctx, idx int) *CaseResult {
	cr := &CaseResult{}
	r := c.Rng(idx, 0)
	prog, sites := genC13(r)
	if idx >= tierN(1500, 60000)(c.Tier) {
		// appended cases: the WHOLE condition of a rule that fires is a counted call (or its
		// negation) which other rules read as part of larger conditions - firing that rule is no
		// invalidation event
		sites = c13Bare(r, prog, sites)
		cr.inc("bare_call_condition_programs")
	}
	if idx >= tierN(1500, 60000)(c.Tier)+tierN(200, 6000)(c.Tier) {
		// appended behind those: a counted call whose argument is itself a call, used as the
		// receiver of different members in different rules (the call atom is shared, the member
		// expressions are not)
		sites = c13Nested(r, prog, sites)
		cr.inc("nested_call_receiver_programs")
	}
	pipeline := pipelines[r.Intn(len(pipelines))]
	style := traceStyle(c.Rng(idx, 1))
	if style.Redundant {
		DecorateProgram(prog, c.Rng(idx, 2))
	}
	lib, text, err := BuildVia(pipeline, prog, style)
	if err != nil {
		cr.inconclusive("generated program rejected by the builder or the store/load pipeline (judged by C17/C12)")
		return cr
	}
	for si := 0; si < 2; si++ {
		sr := c.Rng(idx, 100+si)
		init := GenState(sr)
		kb, err := NewInstance(lib)
		if err != nil {
			cr.inconclusive("instance creation failed (judged by C09)")
			continue
		}
		cfg := RunCfg{MaxCycle: uint64(1 + sr.Intn(60))}
		res := Run(kb, prog, CopyStateLive(init), cfg)
		cr.Evals++
		if res.Panic != nil {
			cr.inconclusive("panic escaped Execute (judged by C14)")
			continue
		}
		a := Analyze(prog, res, cfg, nil)
		// the trace must be valid for its executed statements to be trusted as invalidation events
		if v := append(MonFiresOnlyWhenTrue(a), MonProtocol(a)...); len(v) > 0 && a.DomainFrom < 0 {
			cr.inconclusive("trace not validated (judged by C01/C06): " + trunc(v[0].Msg, 40))
			continue
		}
		vs, obs := MonMemoBudget(a, sites)
		if len(vs) > 0 {
			cr.violate(joinViol(vs[:min(2, len(vs))]), caseDetail(text, pipeline, init, res, vs))
			continue
		}
		for _, s := range sites {
			o := obs[s.ID]
			cr.addn("counted_calls", o[0])
			cr.addn("budget_total", o[1])
			if len(s.Rules) >= 2 && len(a.Cycles) >= 3 && o[0] > 0 {
				cr.NonTrivial = append(cr.NonTrivial, hashStr(fmt.Sprintf("%s|%d|%d", text, si, s.ID)))
				cr.set("rules_sharing_a_call", fmt.Sprint(len(s.Rules)))
				if o[0] == o[1] {
					cr.inc("budget_exactly_used")
				}
			}
		}
		if cr.Sample == nil && len(a.Cycles) > 3 {
			var l []string
			for _, s := range sites {
				l = append(l, fmt.Sprintf("%s in %d rules: %d calls, budget %d", s.Text, len(s.Rules), obs[s.ID][0], obs[s.ID][1]))
			}
			cr.Sample = map[string]interface{}{"grl": trunc(text, 1200), "cycles": len(a.Cycles), "sites": l, "pipeline": pipeline}
		}
	}
	return cr
}

func init() {
	register(&Check{
		ID: "C13", Level: "exploration",
		Rule: "rule sets (2-12 rules) into which 1-3 counted pure method calls T.Tag(id,...) are injected, each with identical text in k>=1 rules (either operand of && / ||, inside arithmetic, in then right-hand sides), run lengths 1-60 cycles, all four build pipelines; oracle = calls logged per id <= 1 + invalidation events from the validated trace (executed assignments overlapping a variable of the call, Forget/Changed naming it; generous overlap: a selector matches any element); non-trivial = distinct (program, state, call text) where the text occurs in >=2 rules, the run has >=3 cycles and the method was called; statement calls that are handed a pointer to a fact (no invalidation event); appended cases in which one boolean counted call is the WHOLE condition of two rules (plain / negated) and an operand in all others; appended behind those, a counted call with a call as its argument, T.Ptr(8, T.Cnt(F.A)), as the receiver of .X / .N in every rule",
		Assume: []string{"methods never fail (a failed evaluation is legitimately retried)", "the generous overlap reading can miss an unnecessary re-evaluation between sibling elements but never accuses correct code"},
		Cases:  func(t string) int { return tierN(1500, 60000)(t) + tierN(200, 6000)(t) + tierN(100, 3000)(t) },
		Run:    runC13Case,
	})
}

// c13Nested adds T.Ptr(8, T.Cnt(F.A)) as the receiver of .X in some rules and of .N in the others.
func c13Nested(r *rand.Rand, prog *Program, sites []*tagSite) []*tagSite {
	if len(prog.Rules) < 2 {
		return sites
	}
	arg := VarE(P("F.A"), TInt, reflect.Int64)
	call := CallE(tool(), "Ptr", TAny, reflect.Ptr, LitI(8), CallE(tool(), "Cnt", TInt, reflect.Int64, arg))
	s := &tagSite{ID: 8, Call: call, Text: ExprText(call), Rules: map[string]bool{}, Ty: TInt, Vars: []*Path{P("F.A"), P("T")}}
	if len(sites) > 0 && sites[0].ProgVars != nil {
		s.ProgVars = sites[0].ProgVars
	} else {
		s.ProgVars = map[string]bool{}
	}
	s.ProgVars["F.A"] = true
	for i, rule := range prog.Rules {
		s.Rules[rule.Name] = true
		fn, gk := "X", reflect.Int64
		if i%2 == 1 {
			fn, gk = "N", reflect.Int32
		}
		m := &Expr{Op: "member", Ty: TInt, GK: int(gk), Fn: fn, L: call}
		cond := Bin([]string{"<", ">", "!=", ">="}[r.Intn(4)], TBool, m, LitI(int64(r.Intn(9))-2))
		if r.Intn(2) == 0 {
			rule.When = Bin([]string{"&&", "||"}[r.Intn(2)], TBool, cond, rule.When)
		} else {
			rule.When = Bin([]string{"&&", "||"}[r.Intn(2)], TBool, rule.When, cond)
		}
	}
	return append(sites, s)
}

// c13Bare rewrites the program so that one boolean counted call is the whole condition of two
// rules (plain and negated, so that one of them fires) and part of the condition of every other.
func c13Bare(r *rand.Rand, prog *Program, sites []*tagSite) []*tagSite {
	var s *tagSite
	for _, x := range sites {
		if x.Ty == TBool {
			s = x
		}
	}
	if len(prog.Rules) < 2 {
		return sites
	}
	if s == nil {
		// no boolean call in this program yet: add one over a string field
		arg := VarE(P([]string{"F.S1", "F.S2", "G.S1"}[r.Intn(3)]), TStr, reflect.String)
		call := CallE(tool(), "TagS", TBool, reflect.Bool, LitI(9), arg)
		s = &tagSite{ID: 9, Call: call, Text: ExprText(call), Rules: map[string]bool{}, Ty: TBool, Vars: append(pathsOf(arg), P("T"))}
		if len(sites) > 0 {
			s.ProgVars = sites[0].ProgVars
		}
		sites = append(sites, s)
	}
	for i, rule := range prog.Rules {
		s.Rules[rule.Name] = true
		switch {
		case i == 0:
			rule.When = s.Call
		case i == 1:
			rule.When = Not(s.Call)
		default:
			rule.When = Bin([]string{"&&", "||"}[r.Intn(2)], TBool, rule.When, s.Call)
		}
	}
	// the conditions changed: announcements may only name variables the program still has
	// (Forget of a text that is no variable un-remembers by substring, a different rule)
	progVars := map[string]bool{}
	collect := func(e *Expr) {
		e.Walk(func(x *Expr) {
			if x.Op == "var" && x.Path != nil && len(x.Path.Steps) > 0 {
				for _, st := range x.Path.Steps {
					if st.Sel != nil {
						return
					}
				}
				progVars[PathText(x.Path)] = true
			}
		})
	}
	for _, rule := range prog.Rules {
		collect(rule.When)
		for _, st := range rule.Then {
			if st.RHS != nil {
				collect(st.RHS)
			}
			if st.Call != nil {
				collect(st.Call)
			}
			if st.Target != nil && st.Kind == "assign" {
				collect(VarE(st.Target, TAny, 0))
			}
		}
	}
	for _, rule := range prog.Rules {
		var keep []*Stmt
		for _, st := range rule.Then {
			if (st.Kind == "forget" || st.Kind == "changed") && !progVars[st.Name] && st.Name != "T.St" && st.Name != "T.Peek()" && st.Name != peekKText {
				continue
			}
			keep = append(keep, st)
		}
		rule.Then = keep
	}
	for _, x := range sites {
		x.ProgVars = progVars
	}
	return sites
}
