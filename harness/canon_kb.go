package main

// Canonical form of what the engine actually built / cloned / loaded: a reflection walk over the
// exported fields of the engine's AST reachable from the rule entries. Injective by construction:
// typed, length-prefixed constants at full precision. Run-time state (memo flags, values, data
// context) and node identities (AstID) are left out.

import (
	"fmt"
	"reflect"
	"sort"
	"strings"

	"github.com/hyperjumptech/grule-rule-engine/ast"
)

var canonSkip = map[string]bool{"Snapshot": true, "AstID": true, "Evaluated": true, "ValueNode": true, "DataContext": true, "WorkingMemory": true, "Retracted": true}

// CanonEntry renders one rule entry.
func CanonEntry(re *ast.RuleEntry, withText bool) string {
	var b strings.Builder
	canonAst(&b, reflect.ValueOf(re), withText, map[uintptr]bool{})
	return b.String()
}

// CanonKB renders all non-removed rule entries sorted by name, plus name and version.
func CanonKB(kb *ast.KnowledgeBase, withText bool) string {
	var names []string
	for n, re := range kb.RuleEntries {
		if !re.Deleted {
			names = append(names, n)
		}
	}
	sort.Strings(names)
	var b strings.Builder
	fmt.Fprintf(&b, "KB %q %q\n", kb.Name, kb.Version)
	for _, n := range names {
		fmt.Fprintf(&b, "[%q] %s\n", n, CanonEntry(kb.RuleEntries[n], withText))
	}
	return b.String()
}

func canonAst(b *strings.Builder, v reflect.Value, withText bool, onPath map[uintptr]bool) {
	switch v.Kind() {
	case reflect.Ptr:
		if v.IsNil() {
			b.WriteString("nil")
			return
		}
		if onPath[v.Pointer()] {
			b.WriteString("<cycle>")
			return
		}
		onPath[v.Pointer()] = true
		canonAst(b, v.Elem(), withText, onPath)
		delete(onPath, v.Pointer())
	case reflect.Struct:
		t := v.Type()
		if t == reflect.TypeOf(reflect.Value{}) {
			// Constant.Value: the only semantic reflect.Value; others are skipped by name below
			rv := v.Interface().(reflect.Value)
			if !rv.IsValid() {
				b.WriteString("invalid")
				return
			}
			canonValue(b, rv)
			return
		}
		b.WriteString(t.Name())
		b.WriteString("{")
		for i := 0; i < t.NumField(); i++ {
			f := t.Field(i)
			if f.PkgPath != "" || canonSkip[f.Name] {
				continue
			}
			if f.Name == "Value" && t.Name() != "Constant" {
				continue // memoized run-time value
			}
			if f.Name == "GrlText" && !withText {
				continue
			}
			b.WriteString(f.Name)
			b.WriteString(":")
			canonAst(b, v.Field(i), withText, onPath)
			b.WriteString(" ")
		}
		b.WriteString("}")
	case reflect.Slice:
		fmt.Fprintf(b, "[%d:", v.Len())
		for i := 0; i < v.Len(); i++ {
			canonAst(b, v.Index(i), withText, onPath)
			b.WriteString(",")
		}
		b.WriteString("]")
	case reflect.Interface:
		if v.IsNil() {
			b.WriteString("niliface")
			return
		}
		canonAst(b, v.Elem(), withText, onPath)
	case reflect.Map:
		b.WriteString("map?")
	default:
		canonValue(b, v)
	}
}
