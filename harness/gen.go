package main

// Typed, depth-bounded generators for fact states, expressions, statements and rule sets.
// All randomness comes from the *rand.Rand handed in (seeded from VERIF_SEED, property, case).

import (
	"fmt"
	"math/rand"
	"reflect"
	"time"
)

// VarSpec describes one addressable path of the fact universe.
type VarSpec struct {
	Text  string // plain text (unique id)
	Mk    func() *Path
	Ty    Ty
	GK    reflect.Kind
	W     bool   // assignable inside the domain
	Ind   bool   // value is read through a pointer / interface
	Class string // addressing form
	JSON  bool
}

func (v VarSpec) E() *Expr { return VarE(v.Mk(), v.Ty, v.GK) }

func vs(text string, ty Ty, gk reflect.Kind, class string, w bool, mk func() *Path) VarSpec {
	return VarSpec{Text: text, Mk: mk, Ty: ty, GK: gk, W: w, Class: class}
}

func idxVar(root string) *Expr { return VarE(P(root+".Idx"), TInt, reflect.Int64) }
func keyVar(root string) *Expr { return VarE(P(root+".Key"), TStr, reflect.String) }

// Catalog is the full list of variables the generators draw from.
func Catalog() []VarSpec {
	var c []VarSpec
	f := func(path string, ty Ty, gk reflect.Kind, class string) {
		p := path
		c = append(c, vs(p, ty, gk, class, true, func() *Path { return P(p) }))
	}
	for _, n := range []string{"A", "AB", "A1", "B", "C", "E", "P"} {
		f("F."+n, TInt, reflect.Int64, "field")
	}
	f("G.A", TInt, reflect.Int64, "field")
	f("G.B", TInt, reflect.Int64, "field")
	f("G.AB", TInt, reflect.Int64, "field")
	f("F.I", TInt, reflect.Int, "field")
	f("F.I8", TInt, reflect.Int8, "field")
	f("F.I16", TInt, reflect.Int16, "field")
	f("F.I32", TInt, reflect.Int32, "field")
	f("F.U", TUint, reflect.Uint, "field")
	f("F.U8", TUint, reflect.Uint8, "field")
	f("F.U16", TUint, reflect.Uint16, "field")
	f("F.U32", TUint, reflect.Uint32, "field")
	f("F.U64", TUint, reflect.Uint64, "field")
	f("F.X", TFloat, reflect.Float64, "field")
	f("F.Y", TFloat, reflect.Float64, "field")
	f("G.X", TFloat, reflect.Float64, "field")
	f("F.F32", TFloat, reflect.Float32, "field")
	f("F.S1", TStr, reflect.String, "field")
	f("F.S2", TStr, reflect.String, "field")
	f("G.S1", TStr, reflect.String, "field")
	f("F.T", TBool, reflect.Bool, "field")
	f("F.Fl", TBool, reflect.Bool, "field")
	f("G.T", TBool, reflect.Bool, "field")
	f("F.Tm", TTime, reflect.Struct, "field")
	f("F.Tm2", TTime, reflect.Struct, "field")
	f("F.Idx", TInt, reflect.Int64, "field")
	f("F.Key", TStr, reflect.String, "field")
	// nested pointer / nested value
	f("F.In.X", TInt, reflect.Int64, "nested-ptr")
	f("F.In.Y", TFloat, reflect.Float64, "nested-ptr")
	f("F.In.S", TStr, reflect.String, "nested-ptr")
	f("F.In.B", TBool, reflect.Bool, "nested-ptr")
	f("F.In.N", TInt, reflect.Int32, "nested-ptr")
	f("F.In.U", TUint, reflect.Uint16, "nested-ptr")
	f("F.Val.X", TInt, reflect.Int64, "nested-val")
	f("F.Val.Y", TFloat, reflect.Float64, "nested-val")
	f("F.Val.S", TStr, reflect.String, "nested-val")
	f("G.In.X", TInt, reflect.Int64, "nested-ptr")
	// pointer to number
	pn := vs("F.PN", TInt, reflect.Int64, "ptr-num", true, func() *Path { return P("F.PN") })
	pn.Ind = true
	c = append(c, pn)
	pb := vs("F.PB", TBool, reflect.Bool, "ptr-bool", false, func() *Path { return P("F.PB") })
	pb.Ind = true
	c = append(c, pb)
	ab := vs("F.AnyB", TBool, reflect.Bool, "iface-bool", false, func() *Path { return P("F.AnyB") })
	ab.Ind = true
	c = append(c, ab)
	mb := vs(`F.MAny["b"]`, TBool, reflect.Bool, "iface-bool", false, func() *Path { return P("F.MAny", "b") })
	mb.Ind = true
	c = append(c, mb)
	// slices
	c = append(c, vs("F.Arr[0]", TInt, reflect.Int64, "slice-const", true, func() *Path { return P("F.Arr", 0) }))
	c = append(c, vs("F.Arr[1]", TInt, reflect.Int64, "slice-const", true, func() *Path { return P("F.Arr", 1) }))
	c = append(c, vs("F.Arr[F.Idx]", TInt, reflect.Int64, "slice-var", true, func() *Path { return P("F.Arr", idxVar("F")) }))
	c = append(c, vs("F.Arr[F.Idx + 1]", TInt, reflect.Int64, "slice-expr", true, func() *Path { return P("F.Arr", Bin("+", TInt, idxVar("F"), LitI(1))) }))
	c = append(c, vs(`F.M["k" + (F.Idx + 1)]`, TInt, reflect.Int64, "map-expr", true, func() *Path {
		return P("F.M", Bin("+", TStr, LitS("k"), Bin("+", TInt, idxVar("F"), LitI(1))))
	}))
	c = append(c, vs("F.FArr[0]", TFloat, reflect.Float64, "slice-const", true, func() *Path { return P("F.FArr", 0) }))
	c = append(c, vs("F.SArr[1]", TStr, reflect.String, "slice-const", true, func() *Path { return P("F.SArr", 1) }))
	c = append(c, vs("F.I8Arr[0]", TInt, reflect.Int8, "slice-const", true, func() *Path { return P("F.I8Arr", 0) }))
	c = append(c, vs("F.PArr[0].X", TInt, reflect.Int64, "slice-ptr", true, func() *Path { return P("F.PArr", 0, ".X") }))
	c = append(c, vs("F.PArr[F.Idx].X", TInt, reflect.Int64, "slice-ptr", true, func() *Path { return P("F.PArr", idxVar("F"), ".X") }))
	// a selector two steps above the field
	c = append(c, vs("F.PArr[0].Sub.V", TInt, reflect.Int64, "slice-ptr-deep", true, func() *Path { return P("F.PArr", 0, ".Sub", ".V") }))
	c = append(c, vs("F.PArr[F.Idx].Sub.V", TInt, reflect.Int64, "slice-ptr-deep", true, func() *Path { return P("F.PArr", idxVar("F"), ".Sub", ".V") }))
	c = append(c, vs(`F.MP["a"].Sub.V`, TInt, reflect.Int64, "map-ptr-deep", true, func() *Path { return P("F.MP", "a", ".Sub", ".V") }))
	c = append(c, vs(`F.MP[F.MKey].Sub.V`, TInt, reflect.Int64, "map-ptr-deep", true, func() *Path { return P("F.MP", VarE(P("F.MKey"), TStr, reflect.String), ".Sub", ".V") }))
	c = append(c, vs("F.In.Sub.V", TInt, reflect.Int64, "nested-ptr-deep", true, func() *Path { return P("F.In.Sub.V") }))
	// maps
	c = append(c, vs(`F.M["k1"]`, TInt, reflect.Int64, "map-const", true, func() *Path { return P("F.M", "k1") }))
	c = append(c, vs(`F.M["k2"]`, TInt, reflect.Int64, "map-const", true, func() *Path { return P("F.M", "k2") }))
	c = append(c, vs(`F.M[F.Key]`, TInt, reflect.Int64, "map-var", true, func() *Path { return P("F.M", keyVar("F")) }))
	c = append(c, vs(`F.MS["k1"]`, TStr, reflect.String, "map-const", true, func() *Path { return P("F.MS", "k1") }))
	c = append(c, vs(`F.MF["k1"]`, TFloat, reflect.Float64, "map-const", true, func() *Path { return P("F.MF", "k1") }))
	// documented rejected case: an int64 value into a map whose element type is int
	c = append(c, vs(`F.MInt["k1"]`, TInt, reflect.Int, "map-elem-kind-mismatch", true, func() *Path { return P("F.MInt", "k1") }))
	c = append(c, vs(`F.MI[1]`, TInt, reflect.Int64, "map-const", true, func() *Path { return P("F.MI", 1) }))
	c = append(c, vs(`F.MP["a"].X`, TInt, reflect.Int64, "map-ptr", true, func() *Path { return P("F.MP", "a", ".X") }))
	// JSON members in both spellings
	j := func(text string, ty Ty, gk reflect.Kind, class string, mk func() *Path) {
		v := vs(text, ty, gk, class, true, mk)
		v.JSON = true
		c = append(c, v)
	}
	j("J.age", TFloat, reflect.Float64, "json-dot", func() *Path { return P("J.age") })
	j(`J["age"]`, TFloat, reflect.Float64, "json-sel", func() *Path { return P("J", "age") })
	j("J.obj.n", TFloat, reflect.Float64, "json-dot", func() *Path { return P("J.obj.n") })
	j(`J.obj["n"]`, TFloat, reflect.Float64, "json-sel", func() *Path { return P("J.obj", "n") })
	j("J.arr[1]", TFloat, reflect.Float64, "json-arr", func() *Path { return P("J.arr", 1) })
	j("J.name", TStr, reflect.String, "json-dot", func() *Path { return P("J.name") })
	j("J.ok", TBool, reflect.Bool, "json-dot", func() *Path { return P("J.ok") })
	// top-level context variables
	c = append(c, vs("N", TInt, reflect.Int64, "top", true, func() *Path { return P("N") }))
	c = append(c, vs("Xf", TFloat, reflect.Float64, "top", true, func() *Path { return P("Xf") }))
	c = append(c, vs("Str", TStr, reflect.String, "top", true, func() *Path { return P("Str") }))
	c = append(c, vs("Flag", TBool, reflect.Bool, "top", true, func() *Path { return P("Flag") }))
	return c
}

var catalog = Catalog()

func catalogBy(pred func(VarSpec) bool) []VarSpec {
	var r []VarSpec
	for _, v := range catalog {
		if pred(v) {
			r = append(r, v)
		}
	}
	return r
}

// GenState draws an initial fact state with small, boundary-rich values.
func GenState(r *rand.Rand) State {
	si := func() int64 { return int64(r.Intn(9)) - 3 }
	sf := func() float64 { return float64(r.Intn(17)-6) / 4 }
	ss := func() string {
		return []string{"", "a", "ab", "Ab", "abc", "zz", "k1", "k2", " pad ", "é✓"}[r.Intn(10)]
	}
	sb := func() bool { return r.Intn(2) == 0 }
	mkInner := func() *Inner {
		return &Inner{X: si(), Y: sf(), S: ss(), B: sb(), N: int32(si()), U: uint16(r.Intn(5)), Sub: &Leaf{V: si(), W: sf()}}
	}
	base := time.Date(2020, 1, 1, 0, 0, 0, 0, time.UTC)
	mkFact := func() *Fact {
		pn := si()
		f := &Fact{
			A: si(), AB: si(), A1: si(), B: si(), C: si(), E: si(), P: si(),
			I: int(si()), I8: int8(si()), I16: int16(si()), I32: int32(si()),
			U: uint(r.Intn(6)), U8: uint8(r.Intn(6)), U16: uint16(r.Intn(6)), U32: uint32(r.Intn(6)), U64: uint64(r.Intn(6)),
			X: sf(), Y: sf(), F32: float32(sf()),
			S1: ss(), S2: ss(), T: sb(), Fl: sb(),
			Tm: base.Add(time.Duration(r.Intn(5)) * time.Hour), Tm2: base.Add(time.Duration(r.Intn(5)) * time.Hour),
			In: mkInner(), Val: *mkInner(), PN: &pn,
			Arr: []int64{si(), si(), si()}, FArr: []float64{sf(), sf()}, SArr: []string{ss(), ss()},
			PArr: []*Inner{mkInner(), mkInner()}, I8Arr: []int8{int8(si()), int8(si())},
			M:    map[string]int64{"k1": si(), "k2": si()},
			MS:   map[string]string{"k1": ss(), "k2": ss()},
			MP:   map[string]*Inner{"a": mkInner(), "b": mkInner()},
			MI:   map[int64]int64{1: si(), 2: si()},
			MF:   map[string]float64{"k1": sf()},
			MInt: map[string]int{"k1": int(si())},
			Idx:  int64(r.Intn(2)), Key: []string{"k1", "k2"}[r.Intn(2)],
		}
		f.MKey = []string{"a", "b"}[r.Intn(2)]
		pbv := sb()
		f.PB = &pbv
		f.AnyB = sb()
		f.MAny = map[string]interface{}{"b": sb(), "n": si()}
		return f
	}
	st := State{
		"F": mkFact(),
		"G": mkFact(),
		"T": &Tool{St: si()},
		"J": &JSONFact{Tree: map[string]interface{}{
			"age":  float64(si()),
			"name": ss(),
			"ok":   sb(),
			"obj":  map[string]interface{}{"n": sf(), "s": ss()},
			"arr":  []interface{}{sf(), sf(), ss()},
		}},
		"N":    si(),
		"Xf":   sf(),
		"Str":  ss(),
		"Flag": sb(),
	}
	return st
}

// Gen is an expression / program generator.
type Gen struct {
	R       *rand.Rand
	Pool    []VarSpec // variables to draw from
	Calls   bool      // allow Tool method calls and built-ins
	Strs    bool      // allow string-valued expressions
	Times   bool
	Shared  []*Expr // boolean sub-expressions reused across rules
	IntLits []int64
	Faulty  bool // allow operations that can fail at run time (variable divisors, variable indices)
	NoAmp   bool // leave & and | out (keeps K1 entirely out of a check)
	// ShortCircuit, when set, is the state on which decided && / || get a failing right operand
	ShortCircuit State
}

func (g *Gen) pick(ty Ty, needDirect bool) (VarSpec, bool) {
	var c []VarSpec
	for _, v := range g.Pool {
		if v.Ty == ty && !(needDirect && v.Ind) {
			c = append(c, v)
		}
	}
	if len(c) == 0 {
		return VarSpec{}, false
	}
	return c[g.R.Intn(len(c))], true
}

func (g *Gen) intLit() *Expr {
	if len(g.IntLits) > 0 && g.R.Intn(2) == 0 {
		return LitI(g.IntLits[g.R.Intn(len(g.IntLits))])
	}
	return LitI(int64(g.R.Intn(8)) - 2)
}

func (g *Gen) floatLit() *Expr {
	return LitF([]float64{0, 0.5, 1.5, -0.75, 2, 0.125, 10, -3, 0.1, 2.5, -0.5, -10, -1.5, 1, -1, -0.125}[g.R.Intn(16)])
}

func (g *Gen) strLit() *Expr {
	return LitS([]string{"", "a", "ab", "k1", "x y", "q\"uote", "it's", "tab\there", "é✓", "back\\slash", "nl\nx", "caf\xe9", "\xff\x80z",
		" \t ab \n", "\r\nk1\t", "\u00a0a\u3000", "  ", "\vab\f", "AbC", "aXbXa"}[g.R.Intn(20)])
}

// direct reports whether e can be passed as a method argument / assigned (not read via pointer).
func direct(e *Expr) bool { return !(e.Op == "var" && e.GK == int(reflect.Ptr)) }

// Expr generates an expression of family ty with depth <= d.
func (g *Gen) Expr(ty Ty, d int) *Expr {
	r := g.R
	leaf := d <= 0 || r.Intn(4) == 0
	switch ty {
	case TInt:
		if leaf {
			if v, ok := g.pick(TInt, false); ok && r.Intn(3) != 0 {
				e := v.E()
				if v.Ind {
					e.GK = int(reflect.Ptr)
				}
				return e
			}
			return g.intLit()
		}
		switch k := r.Intn(12); {
		case k < 6:
			ops := []string{"+", "-", "*", "+", "-", "%", "&", "|"}
			if g.NoAmp {
				ops = ops[:6]
			}
			op := ops[r.Intn(len(ops))]
			l := g.Expr(TInt, d-1)
			var rt *Expr
			if r.Intn(6) == 0 {
				rt = g.Expr(TUint, d-1)
			} else {
				rt = g.Expr(TInt, d-1)
			}
			if op == "%" && !g.Faulty {
				rt = LitI(int64(r.Intn(7)) + 2)
			}
			return Bin(op, TInt, l, rt)
		case k < 8 && g.Calls:
			switch r.Intn(5) {
			case 4:
				// member of a method result: T.Ptr(0, x).X
				return &Expr{Op: "member", Ty: TInt, GK: int(reflect.Int64), Fn: "X",
					L: CallE(tool(), "Ptr", TAny, reflect.Ptr, LitI(0), g.arg(TInt, d-1))}
			case 0:
				return CallE(tool(), "Add3", TInt, reflect.Int64, g.arg(TInt, d-1), g.arg(TInt, d-1), g.arg(TInt, d-1))
			case 1:
				n := r.Intn(4)
				args := []*Expr{g.arg(TInt, d-1)}
				for i := 0; i < n; i++ {
					args = append(args, g.arg(TInt, d-1))
				}
				return CallE(tool(), "Sum", TInt, reflect.Int64, args...)
			case 2:
				return CallE(tool(), "Mix", TInt, reflect.Int64, g.arg(TInt, d-1), g.arg(TFloat, d-1), g.arg(TStr, d-1), g.arg(TBool, d-1))
			default:
				return CallE(tool(), "Cnt", TInt, reflect.Int64, g.arg(TInt, d-1))
			}
		case k < 9 && g.Strs:
			fn := []string{"Len", "Count", "Index", "Compare", "LastIndex"}[r.Intn(5)]
			recv := g.recvStr(d - 1)
			if fn == "Len" {
				return CallE(recv, fn, TInt, reflect.Int)
			}
			return CallE(recv, fn, TInt, reflect.Int, g.Expr(TStr, 0))
		case k < 10:
			cont := []string{"F.Arr", "F.SArr", "F.M", "F.MP", "F.PArr"}[r.Intn(5)]
			return CallE(VarE(P(cont), TAny, reflect.Slice), "Len", TInt, reflect.Int)
		default:
			return Bin("+", TInt, g.Expr(TInt, d-1), g.intLit())
		}
	case TUint:
		if v, ok := g.pick(TUint, false); ok && (leaf || r.Intn(2) == 0) {
			return v.E()
		}
		if leaf {
			return VarE(P("F.U8"), TUint, reflect.Uint8)
		}
		ops := []string{"+", "*", "&", "|"}
		if g.NoAmp {
			ops = ops[:2]
		}
		return Bin(ops[r.Intn(len(ops))], TUint, g.Expr(TUint, d-1), g.Expr(TUint, d-1))
	case TFloat:
		if leaf {
			if v, ok := g.pick(TFloat, false); ok && r.Intn(3) != 0 {
				return v.E()
			}
			return g.floatLit()
		}
		switch k := r.Intn(10); {
		case k < 5:
			op := []string{"+", "-", "*"}[r.Intn(3)]
			l, rt := g.num(d-1), g.num(d-1)
			if l.Ty != TFloat && rt.Ty != TFloat {
				if r.Intn(2) == 0 {
					l = g.Expr(TFloat, d-1)
				} else {
					rt = g.Expr(TFloat, d-1)
				}
			}
			return Bin(op, TFloat, l, rt)
		case k < 8:
			l := g.num(d - 1)
			var rt *Expr
			if g.Faulty && r.Intn(3) == 0 {
				rt = g.num(d - 1)
			} else if r.Intn(2) == 0 {
				rt = LitI(int64(r.Intn(5)) + 1)
			} else {
				rt = LitF([]float64{0.5, 2, 4, 1.5, -2}[r.Intn(5)])
			}
			return Bin("/", TFloat, l, rt)
		case k < 9 && g.Calls:
			switch r.Intn(4) {
			case 0:
				return CallE(tool(), "Half", TFloat, reflect.Float64, g.arg(TFloat, d-1))
			case 1:
				// the whole documented math library: one- and two-argument wrappers
				if r.Intn(3) == 0 {
					return CallE(nil, mathBinaryNames[r.Intn(len(mathBinaryNames))], TFloat, reflect.Float64, g.arg(TFloat, d-1), g.arg(TFloat, d-1))
				}
				return CallE(nil, mathUnaryNames[r.Intn(len(mathUnaryNames))], TFloat, reflect.Float64, g.arg(TFloat, d-1))
			case 2:
				// variadic Max / Min with 1-4 arguments of either sign
				n := 1 + r.Intn(4)
				var args []*Expr
				for i := 0; i < n; i++ {
					if r.Intn(3) == 0 {
						args = append(args, g.floatLit())
					} else {
						args = append(args, g.arg(TFloat, d-1))
					}
				}
				return CallE(nil, []string{"Max", "Min"}[r.Intn(2)], TFloat, reflect.Float64, args...)
			default:
				return CallE(nil, []string{"Floor", "Abs", "Ceil", "Round", "Trunc"}[r.Intn(5)], TFloat, reflect.Float64, g.arg(TFloat, d-1))
			}
		default:
			return Bin("+", TFloat, g.Expr(TFloat, d-1), g.floatLit())
		}
	case TStr:
		if leaf || !g.Strs {
			if v, ok := g.pick(TStr, false); ok && r.Intn(3) != 0 {
				return v.E()
			}
			return g.strLit()
		}
		switch k := r.Intn(8); {
		case k < 4:
			l := g.Expr(TStr, d-1)
			var rt *Expr
			switch r.Intn(5) {
			case 0:
				rt = g.Expr(TInt, d-1)
			case 1:
				rt = g.Expr(TBool, d-1)
			case 2:
				rt = g.Expr(TUint, d-1)
			default:
				rt = g.Expr(TStr, d-1)
			}
			if r.Intn(5) == 0 && (rt.Ty == TInt || rt.Ty == TUint) {
				return Bin("+", TStr, rt, l)
			}
			return Bin("+", TStr, l, rt)
		case k < 6 && g.Calls:
			if r.Intn(2) == 0 {
				n := 1 + r.Intn(3)
				var args []*Expr
				for i := 0; i < n; i++ {
					args = append(args, g.arg(TStr, d-1))
				}
				return CallE(tool(), "Cat", TStr, reflect.String, args...)
			}
			return CallE(tool(), "Up", TStr, reflect.String, g.arg(TStr, d-1))
		default:
			switch fn := []string{"ToUpper", "ToLower", "Trim", "Trim", "Replace", "Repeat"}[r.Intn(6)]; fn {
			case "Replace":
				return CallE(g.recvStr(d-1), fn, TStr, reflect.String, g.Expr(TStr, 0), g.Expr(TStr, 0))
			case "Repeat":
				return CallE(g.recvStr(d-1), fn, TStr, reflect.String, LitI(int64(r.Intn(3))))
			default:
				return CallE(g.recvStr(d-1), fn, TStr, reflect.String)
			}
		}
	case TTime:
		if v, ok := g.pick(TTime, false); ok && r.Intn(3) != 0 {
			return v.E()
		}
		if g.Calls {
			return CallE(nil, "MakeTime", TTime, reflect.Struct, LitI(2020), LitI(1), LitI(1), LitI(int64(r.Intn(5))), LitI(0), LitI(0))
		}
		return VarE(P("F.Tm"), TTime, reflect.Struct)
	}
	// TBool
	if len(g.Shared) > 0 && r.Intn(4) == 0 {
		return g.Shared[r.Intn(len(g.Shared))]
	}
	if leaf {
		if v, ok := g.pick(TBool, false); ok && r.Intn(3) != 0 {
			e := v.E()
			if v.Ind {
				e.GK = int(reflect.Ptr)
			}
			return e
		}
		return g.cmp(0)
	}
	if g.ShortCircuit != nil && r.Intn(5) == 0 {
		// a decided && / || must not evaluate its right operand: make that operand fail
		l := g.Expr(TBool, d-1)
		if v, err := ref.Eval(l, g.ShortCircuit); err == nil && v.K == TBool {
			fails := []*Expr{
				Bin(">", TBool, VarE(P("F.Arr", 99), TInt, reflect.Int64), LitI(0)),
				Bin("==", TBool, Bin("%", TInt, LitI(1), Bin("-", TInt, VarE(P("F.Idx"), TInt, reflect.Int64), VarE(P("F.Idx"), TInt, reflect.Int64))), LitI(0)),
				CallE(tool(), "IsPos", TBool, reflect.Bool, CallE(tool(), "Boom", TInt, reflect.Int64, LitI(1), LitI(1))),
				Bin("<", TBool, VarE(P("F.M", "nokey"), TInt, reflect.Int64), LitI(1)),
			}
			op := "||"
			if !v.B {
				op = "&&"
			}
			return Bin(op, TBool, l, fails[r.Intn(len(fails))])
		}
	}
	switch k := r.Intn(14); {
	case k < 5:
		return g.cmp(d - 1)
	case k < 8:
		return Bin([]string{"&&", "||"}[r.Intn(2)], TBool, g.Expr(TBool, d-1), g.Expr(TBool, d-1))
	case k < 10:
		return Not(g.Expr(TBool, d-1))
	case k < 11:
		return Bin([]string{"==", "!="}[r.Intn(2)], TBool, g.Expr(TBool, d-1), g.Expr(TBool, d-1))
	case k < 12 && g.Calls:
		if r.Intn(2) == 0 {
			return CallE(tool(), "IsPos", TBool, reflect.Bool, g.arg(TInt, d-1))
		}
		return CallE(tool(), "Neg", TBool, reflect.Bool, g.arg(TBool, d-1))
	case k < 13 && g.Strs:
		fn := []string{"Contains", "HasPrefix", "HasSuffix", "In", "MatchString"}[r.Intn(5)]
		if fn == "MatchString" {
			// several different patterns in one rule set (a pattern remembered across calls must
			// not be used for another one)
			return CallE(g.recvStr(d-1), fn, TBool, reflect.Bool, LitS(regexPatterns[r.Intn(len(regexPatterns))]))
		}
		if fn == "In" {
			return CallE(g.recvStr(d-1), fn, TBool, reflect.Bool, g.Expr(TStr, 0), g.Expr(TStr, 0), g.strLit())
		}
		return CallE(g.recvStr(d-1), fn, TBool, reflect.Bool, g.Expr(TStr, 0))
	default:
		if g.Times {
			op := []string{"<", "<=", ">", ">=", "==", "!="}[r.Intn(6)]
			return Bin(op, TBool, g.Expr(TTime, d-1), g.Expr(TTime, d-1))
		}
		return g.cmp(d - 1)
	}
}

func tool() *Expr { return VarE(P("T"), TAny, reflect.Ptr) }

// recvStr is a string-valued receiver for a built-in string function.
func (g *Gen) recvStr(d int) *Expr {
	if v, ok := g.pick(TStr, true); ok && g.R.Intn(4) != 0 {
		return v.E()
	}
	if g.R.Intn(2) == 0 || !g.Calls {
		return g.strLit()
	}
	// a method result as receiver (call chain)
	return CallE(tool(), "Up", TStr, reflect.String, g.arg(TStr, d))
}

// arg is an expression that may be passed to a Go method: exactly int64 / float64 / string / bool.
func (g *Gen) arg(ty Ty, d int) *Expr {
	for i := 0; i < 8; i++ {
		e := g.Expr(ty, d)
		if argOK(e) {
			return e
		}
	}
	switch ty {
	case TInt:
		return g.intLit()
	case TFloat:
		return g.floatLit()
	case TStr:
		return g.strLit()
	default:
		return LitB(g.R.Intn(2) == 0)
	}
}

// argOK: the expression's dynamic Go kind is the canonical one of its family.
func argOK(e *Expr) bool {
	switch e.Op {
	case "var", "call", "member":
		k := reflect.Kind(e.GK)
		switch e.Ty {
		case TInt:
			return k == reflect.Int64 && !isJSONPath(e.Path)
		case TFloat:
			return k == reflect.Float64 && !isJSONPath(e.Path)
		case TStr:
			return k == reflect.String && !isJSONPath(e.Path)
		case TBool:
			return k == reflect.Bool && !isJSONPath(e.Path)
		}
		return false
	}
	return true
}

func isJSONPath(p *Path) bool { return p != nil && p.Root == "J" }

func (g *Gen) num(d int) *Expr {
	switch g.R.Intn(5) {
	case 0, 1:
		return g.Expr(TInt, d)
	case 2:
		return g.Expr(TUint, d)
	default:
		return g.Expr(TFloat, d)
	}
}

func (g *Gen) cmp(d int) *Expr {
	op := []string{"<", "<=", ">", ">=", "==", "!="}[g.R.Intn(6)]
	if g.Strs && g.R.Intn(5) == 0 {
		return Bin(op, TBool, g.Expr(TStr, d), g.Expr(TStr, d))
	}
	l := g.num(d)
	var rt *Expr
	if g.R.Intn(3) == 0 {
		if l.Ty == TFloat {
			rt = g.floatLit()
		} else {
			rt = g.intLit()
		}
	} else {
		rt = g.num(d)
	}
	return Bin(op, TBool, l, rt)
}

// AssignTo generates an assignment to v whose value stays inside the destination's range.
func (g *Gen) AssignTo(v VarSpec, d int) *Stmt {
	r := g.R
	aop := "="
	var rhs *Expr
	if g.Faulty && (v.JSON || v.Class == "top") && r.Intn(5) == 0 {
		// a JSON member or a top-level variable may change its kind at run time; conditions that
		// read it as a number then fail to evaluate (C14)
		switch v.Ty {
		case TStr:
			return Assign(v.Mk(), "=", g.intLit())
		case TBool:
			return Assign(v.Mk(), "=", g.strLit())
		default:
			return Assign(v.Mk(), "=", LitS([]string{"high", "n/a", ""}[r.Intn(3)]))
		}
	}
	switch v.Ty {
	case TInt:
		if r.Intn(3) == 0 && v.GK == reflect.Int64 && !v.JSON {
			aop = []string{"+=", "-=", "*="}[r.Intn(3)]
			if aop == "*=" {
				rhs = LitI(int64(r.Intn(3)) + 1)
			} else {
				rhs = g.intLit()
			}
			break
		}
		rhs = g.Expr(TInt, d)
		switch v.GK {
		case reflect.Int8:
			rhs = Bin("%", TInt, rhs, LitI(100))
		case reflect.Int16:
			rhs = Bin("%", TInt, rhs, LitI(30000))
		case reflect.Int32, reflect.Int:
			rhs = Bin("%", TInt, rhs, LitI(2000000000))
		default:
			if r.Intn(6) == 0 {
				rhs = g.Expr(TUint, d)
			} else if r.Intn(8) == 0 {
				rhs = Bin("*", TFloat, g.Expr(TFloat, 0), LitI(2)) // real to integer conversion (truncation)
			}
		}
	case TUint:
		switch r.Intn(3) {
		case 0:
			rhs = g.Expr(TUint, d)
			if v.GK == reflect.Uint8 {
				rhs = Bin("&", TUint, rhs, VarE(P("F.U8"), TUint, reflect.Uint8))
				if g.NoAmp {
					rhs = VarE(P("F.U8"), TUint, reflect.Uint8)
				}
			}
		case 1:
			rhs = LitI(int64(r.Intn(200)))
		default:
			// (x % 50) + 50 is within 1..99
			rhs = Bin("+", TInt, Bin("%", TInt, g.Expr(TInt, d), LitI(50)), LitI(50))
		}
	case TFloat:
		if r.Intn(4) == 0 && !v.JSON && v.GK == reflect.Float64 {
			aop = []string{"+=", "-=", "*=", "/="}[r.Intn(4)]
			switch aop {
			case "/=":
				rhs = LitI(2)
			case "*=":
				rhs = LitF(0.5)
			default:
				rhs = g.floatLit()
			}
			break
		}
		if r.Intn(4) == 0 {
			rhs = g.Expr(TInt, d)
		} else {
			rhs = g.Expr(TFloat, d)
		}
	case TStr:
		if r.Intn(5) == 0 && !v.JSON {
			aop = "+="
			rhs = g.strLit()
			break
		}
		rhs = g.Expr(TStr, d)
		// keep strings from growing exponentially over a run: at most one string variable
		// occurrence in a right-hand side, otherwise clip
		if nStrVars(rhs) > 1 {
			if g.Calls {
				rhs = CallE(tool(), "Clip", TStr, reflect.String, mkArg(rhs))
			} else {
				rhs = g.Expr(TStr, 0)
			}
		}
	case TBool:
		rhs = g.Expr(TBool, d)
	case TTime:
		rhs = g.Expr(TTime, d)
	}
	if rhs.Op == "var" && rhs.GK == int(reflect.Ptr) {
		rhs = Bin("+", TInt, rhs, LitI(0))
	}
	return Assign(v.Mk(), aop, rhs)
}

// RuleName returns the i-th rule name; names are deliberately prefixes of one another.
func RuleName(i int) string {
	names := []string{"R", "R1", "R10", "Ra", "RaB", "Rul", "Q", "Q_1", "Ωmega", "R2", "R20", "S"}
	if i < len(names) {
		return names[i]
	}
	return fmt.Sprintf("X%d", i)
}

// Saliences draws a salience assignment for n rules.
func (g *Gen) Salience() (bool, int64) {
	r := g.R
	switch r.Intn(10) {
	case 0, 1:
		return false, 0
	case 2:
		return true, 0
	case 3:
		return true, []int64{-2147483648, 2147483647, 2147483646, -2147483647}[r.Intn(4)]
	case 4, 5:
		return true, int64(r.Intn(3)) - 1
	default:
		return true, int64(r.Intn(21)) - 10
	}
}

func nStrVars(e *Expr) int {
	n := 0
	e.Walk(func(x *Expr) {
		if x.Op == "var" && x.Ty == TStr {
			n++
		}
		// multiplicative growth: treated like a second variable (forces the clip)
		if x.Op == "call" && (x.Fn == "Repeat" || x.Fn == "Replace") {
			n += 2
		}
	})
	return n
}

// mkArg makes e passable as a string argument (JSON members and the like are concatenated
// with "" so that the dynamic kind is exactly string).
func mkArg(e *Expr) *Expr {
	if argOK(e) {
		return e
	}
	return Bin("+", TStr, LitS(""), e)
}

var regexPatterns = []string{"^a", "b$", "[0-9]+", "k.", "^$", "(a|b)+", "^[a-z]*$", "\\s", "é", "x y", "^.{2}$"}
