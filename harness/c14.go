package main

// C14: failures inside a condition or an action are contained and reported.
// Part A (dynamic): fault enumeration at the boundary: the k-th harness-method call of the run
// fails in a chosen flavour. Part B (static): hostile fact states (nil pointers, short slices,
// missing keys / members / facts, zero divisors, wrong kinds) that the reference predicts.

import (
	"fmt"
	"math/rand"
	"reflect"
	"strings"
)

// fault sites: expressions that are healthy unless the fault plan selects the call inside
type faultSite struct {
	ID      int64
	Expr    *Expr  // integer-valued expression containing the fault-capable call
	Flavour string // the flavour that makes this site fail (panic works on every site)
}

func mkFaultSite(r *rand.Rand, id int64, ints []*Expr) *faultSite {
	arg := ints[r.Intn(len(ints))]
	switch r.Intn(4) {
	case 0: // zero used as % divisor
		return &faultSite{ID: id, Flavour: "zero",
			Expr: Bin("%", TInt, Bin("+", TInt, arg, LitI(7)), CallE(tool(), "Chk", TInt, reflect.Int64, LitI(id), LitI(int64(r.Intn(4))+2)))}
	case 1: // nil pointer whose field is then read
		p := &Path{Root: "T"}
		call := CallE(tool(), "Ptr", TAny, reflect.Ptr, LitI(id), arg)
		_ = p
		return &faultSite{ID: id, Flavour: "nilptr", Expr: &Expr{Op: "member", Ty: TInt, L: call, Fn: "X", GK: int(reflect.Int64)}}
	case 2: // out-of-range index
		return &faultSite{ID: id, Flavour: "range",
			Expr: VarE(P("F.Arr", CallE(tool(), "Idx0", TInt, reflect.Int64, LitI(id), arg)), TInt, reflect.Int64)}
	default: // wrong kind used as multiplication operand
		return &faultSite{ID: id, Flavour: "kind",
			Expr: Bin("*", TInt, CallE(tool(), "Kind", TInt, reflect.Interface, LitI(id), arg), LitI(2))}
	}
}

func genC14(r *rand.Rand) (*Program, []*faultSite) {
	o := TraceOpts{MinRules: 2, MaxRules: 6, MinPool: 3, MaxPool: 6, Control: r.Intn(2) == 0, Calls: false, Strs: false, Depth: 2, NoComplete: true}
	prog := GenTraceProgram(r, o)
	ints := []*Expr{VarE(P("F.A"), TInt, reflect.Int64), VarE(P("F.B"), TInt, reflect.Int64), VarE(P("G.A"), TInt, reflect.Int64), LitI(3)}
	var sites []*faultSite
	id := int64(0)
	next := func() *faultSite {
		id++
		s := mkFaultSite(r, id, ints)
		sites = append(sites, s)
		return s
	}
	// one site shared by two rule conditions (shared node with a healthy rule)
	shared := next()
	for i, rule := range prog.Rules {
		var s *faultSite
		if i < 2 {
			s = shared
		} else if r.Intn(3) != 0 {
			s = next()
		}
		if s != nil {
			cond := Bin([]string{"<", ">", "!=", ">="}[r.Intn(4)], TBool, s.Expr, LitI(int64(r.Intn(9))-2))
			switch r.Intn(4) {
			case 0:
				rule.When = Bin("&&", TBool, cond, rule.When)
			case 1:
				rule.When = Bin("||", TBool, rule.When, cond)
			case 2:
				rule.When = Bin("&&", TBool, rule.When, cond)
			default:
				rule.When = Bin("||", TBool, cond, rule.When)
			}
		}
		// a fault site in one action statement (position 0, 1 or 2 of the list)
		if r.Intn(2) == 0 {
			as := next()
			st := Assign(P("G.C"), "=", Bin("+", TInt, as.Expr, LitI(1)))
			pos := r.Intn(min(3, len(rule.Then)+1))
			rule.Then = append(rule.Then, nil)
			copy(rule.Then[pos+1:], rule.Then[pos:])
			rule.Then[pos] = st
		}
	}
	return prog, sites
}

// stmtIndexOfSite: index of the statement of rule that contains the call with this id.
func stmtIndexOfSite(rule *Rule, id int64) int {
	for j, st := range rule.Then {
		found := false
		visit := func(e *Expr) {
			e.Walk(func(x *Expr) {
				if x.Op == "call" && len(x.Args) > 0 && x.Args[0].Op == "lit" && x.Args[0].Lit.K == TInt && x.Args[0].Lit.I == id {
					switch x.Fn {
					case "Chk", "Ptr", "Idx0", "Kind", "Two", "Boom":
						found = true
					}
				}
			})
		}
		if st.RHS != nil {
			visit(st.RHS)
		}
		if st.Call != nil {
			visit(st.Call)
		}
		if st.Target != nil {
			for _, s := range st.Target.Steps {
				if s.Sel != nil {
					visit(s.Sel)
				}
			}
		}
		if found {
			return j
		}
	}
	return -1
}

// MonFaultContainment judges one run in which (at most) one injected fault fired.
func MonFaultContainment(a *Analysis, hooks *Hooks) []Violation {
	var vs []Violation
	res := a.Res
	if res.Panic != nil {
		return []Violation{{"FaultContainment", 0, "", fmt.Sprintf("panic escaped Execute: %v", res.Panic)}}
	}
	// locate the fault
	var fault *Event
	for i := range res.Events {
		if res.Events[i].Kind == "method" && res.Events[i].Fault != "" {
			fault = &res.Events[i]
			break
		}
	}
	// which cycle / window
	fc := -1
	inAction := false
	faultRule := ""
	if fault != nil {
		for i, c := range a.Cycles {
			lo := int64(0)
			if c.Rec != nil {
				lo = c.Rec.Seq
			}
			hi := int64(1) << 62
			if i+1 < len(a.Cycles) && a.Cycles[i+1].Rec != nil {
				hi = a.Cycles[i+1].Rec.Seq
			}
			if fault.Seq > lo && fault.Seq < hi {
				fc = i
				if c.ActSeqLo > 0 && fault.Seq > c.ActSeqLo {
					inAction = true
					faultRule = c.SetRules[0]
				}
			}
		}
		if fc >= 0 && !inAction {
			// the rule whose evaluation report follows the fault
			for _, e := range res.Events {
				if e.L == 0 && e.Kind == "eval" && e.Seq > fault.Seq {
					faultRule = e.Rule
					break
				}
			}
		}
	}
	// the call text that failed, and the rules whose condition contains it. A poisoned return
	// value (zero, nil, bad index, wrong kind) is a successful call: it is legitimately
	// remembered, so every rule sharing that call text may keep failing until an invalidation;
	// those rules are not judged from the fault cycle on. A panicking call is not remembered.
	siteID := int64(-1)
	poison := false
	sharing := map[string]bool{}
	if fault != nil {
		poison = fault.Fault != "panic"
		for _, call := range a.Res.Calls {
			if call.Seq == fault.Seq && len(call.Args) > 0 {
				if v, ok := call.Args[0].(int64); ok {
					siteID = v
				}
			}
		}
		if poison {
			for _, rule := range a.Prog.Rules {
				if exprHasSite(rule.When, siteID) {
					sharing[rule.Name] = true
				}
			}
		}
	}
	// cycles before the fault cycle (all cycles when no fault fired): flags == reference
	limit := len(a.Cycles)
	if fc >= 0 {
		limit = fc
	}
	if a.DomainFrom >= 0 && a.DomainFrom < limit {
		limit = a.DomainFrom
	}
	flagsEqual := func(c *CycleInfo, except string) {
		if c.Rec == nil {
			return
		}
		for name, flags := range c.Evals {
			if name == except || (except != "-" && sharing[name]) {
				continue
			}
			t, ok := c.Rec.Truth[name]
			if !ok || t.Domain {
				continue
			}
			want := t.Val && !t.Err
			for _, f := range flags {
				if f != want {
					vs = append(vs, Violation{"FaultContainment", c.N, name, fmt.Sprintf("candidate flag %v but the condition is %s (a failure elsewhere must not disturb this rule)", f, truthText(t))})
				}
			}
		}
	}
	for i := 0; i < limit; i++ {
		flagsEqual(a.Cycles[i], "-")
	}
	if fc < 0 || (a.DomainFrom >= 0 && a.DomainFrom <= fc) {
		// static part: reference-predicted failures
		vs = append(vs, monStaticFaults(a)...)
		return vs
	}
	c := a.Cycles[fc]
	if !inAction {
		if faultRule == "" {
			// the fault fired but no evaluation report followed: only legal when the run ended there with an error
			if res.Err == nil {
				vs = append(vs, Violation{"FaultContainment", c.N, "", "a condition failed but no evaluation was reported and no error returned"})
			}
			return vs
		}
		if a.Cfg.RetErr {
			if res.Err == nil {
				vs = append(vs, Violation{"FaultContainment", c.N, faultRule, "ReturnErrOnFailedRuleEvaluation is set, the condition failed, but Execute returned nil"})
			} else if !strings.Contains(res.Err.Error(), faultRule) {
				vs = append(vs, Violation{"FaultContainment", c.N, faultRule, "the returned error does not name the rule whose condition failed: " + res.Err.Error()})
			}
			if len(c.SetRules) > 0 {
				vs = append(vs, Violation{"FaultContainment", c.N, faultRule, "a rule fired after the failing evaluation although the error must be returned"})
			}
			return vs
		}
		// flag unset: the rule is simply not a candidate in that cycle; nobody else is disturbed
		for _, f := range c.Evals[faultRule] {
			if f {
				vs = append(vs, Violation{"FaultContainment", c.N, faultRule, "reported as candidate in the cycle in which its condition failed"})
			}
		}
		flagsEqual(c, faultRule)
		if res.Err != nil && len(c.SetRules) == 0 && !a.limitDue() {
			vs = append(vs, Violation{"FaultContainment", c.N, faultRule, "a condition failure made Execute return an error although ReturnErrOnFailedRuleEvaluation is not set: " + res.Err.Error()})
		}
		// the failed condition is re-evaluated later: all following cycles agree with the reference,
		// and every active rule (the failed one included) is evaluated again
		for i := fc + 1; i < len(a.Cycles); i++ {
			if a.DomainFrom >= 0 && i >= a.DomainFrom {
				break
			}
			ci := a.Cycles[i]
			flagsEqual(ci, "")
			last := i == len(a.Cycles)-1
			cut := last && (res.Err != nil || res.Aborted) && len(ci.SetRules) == 0
			if !cut {
				for name := range ci.Active {
					if len(ci.Evals[name]) == 0 {
						vs = append(vs, Violation{"FaultContainment", ci.N, name, "not evaluated in a cycle after a condition failed (a failure must leave the rule, and every other rule, active)"})
					}
				}
			}
		}
		return vs
	}
	// fault inside the action list of faultRule
	rule := a.Prog.Rule(faultRule)
	if res.Err == nil {
		vs = append(vs, Violation{"FaultContainment", c.N, faultRule, "an action failed but Execute returned nil"})
	} else if !strings.Contains(res.Err.Error(), faultRule) {
		vs = append(vs, Violation{"FaultContainment", c.N, faultRule, "the returned error does not name the rule whose action failed: " + res.Err.Error()})
	}
	if fc != len(a.Cycles)-1 {
		vs = append(vs, Violation{"FaultContainment", c.N, faultRule, "a further cycle began after a failed action"})
	}
	if c.Completed {
		vs = append(vs, Violation{"FaultContainment", c.N, faultRule, "the action list ran on after a failed statement"})
	}
	if rule != nil && c.Rec != nil {
		j := stmtIndexOfSite(rule, siteID)
		if j >= 0 {
			st := CopyState(c.Rec.Start)
			ctl := &Control{Retracted: map[string]bool{}}
			ok := true
			for k := 0; k < j; k++ {
				if err := ref.Apply(rule.Then[k], st, ctl); err != nil {
					ok = false
					break
				}
			}
			if ok {
				if d := DiffCanon(Canon(res.Final), Canon(st)); d != "" {
					vs = append(vs, Violation{"FaultContainment", c.N, faultRule, fmt.Sprintf("statement %d failed: the facts must show exactly the effects of statements 0..%d: %s", j, j-1, d)})
				}
			}
		}
	}
	return vs
}

// monStaticFaults: failures the reference predicts from the facts (no injected fault).
func monStaticFaults(a *Analysis) []Violation {
	var vs []Violation
	res := a.Res
	cyc := a.evalJudged()
	for i, c := range cyc {
		if c.Rec == nil {
			continue
		}
		// RetErr: an evaluated failing condition must end the run with an error naming it
		if a.Cfg.RetErr {
			for _, name := range c.EvalOrder {
				if t := c.Rec.Truth[name]; t.Err {
					vs = append(vs, Violation{"FaultContainment", c.N, name, "its condition fails (" + t.Msg + ") and ReturnErrOnFailedRuleEvaluation is set, but the evaluation was reported and the run went on"})
				}
			}
			if i == len(cyc)-1 && len(c.SetRules) == 0 && a.DomainFrom < 0 {
				anyErr := ""
				for name := range c.Active {
					if c.Rec.Truth[name].Err && len(c.Evals[name]) == 0 {
						anyErr = name
					}
				}
				if res.Err != nil && !a.limitDue() {
					named := false
					for name := range c.Active {
						if c.Rec.Truth[name].Err && strings.Contains(res.Err.Error(), name) {
							named = true
						}
					}
					if !named {
						vs = append(vs, Violation{"FaultContainment", c.N, "", "Execute returned an error that names no rule with a failing condition: " + res.Err.Error()})
					}
				}
				_ = anyErr
			}
		}
		// action failure predicted by the reference
		if len(c.SetRules) > 0 && c.RefErrAt >= 0 && a.DomainFrom < 0 {
			name := c.SetRules[0]
			if res.Err == nil {
				vs = append(vs, Violation{"FaultContainment", c.N, name, fmt.Sprintf("statement %d must fail (%s) but Execute returned nil", c.RefErrAt, c.RefErrMsg)})
			} else if !strings.Contains(res.Err.Error(), name) {
				vs = append(vs, Violation{"FaultContainment", c.N, name, "the returned error does not name the rule whose action failed: " + res.Err.Error()})
			}
			if i != len(a.Cycles)-1 {
				vs = append(vs, Violation{"FaultContainment", c.N, name, "a further cycle began after a failed action"})
			}
		}
	}
	return vs
}

// hostileState damages a generated state so that evaluations fail in the documented ways.
func hostileState(r *rand.Rand, st State) []string {
	f := st["F"].(*Fact)
	var what []string
	n := 1 + r.Intn(3)
	for i := 0; i < n; i++ {
		switch r.Intn(13) {
		case 10:
			f.AnyB = "yes"
			what = append(what, "interface field holds a string where a boolean is expected")
		case 11:
			f.MAny["b"] = int64(1)
			what = append(what, "map entry holds a number where a boolean is expected")
		case 12:
			if t, ok := st["J"].(*JSONFact).Tree.(map[string]interface{}); ok {
				for k, v := range t {
					if _, isb := v.(bool); isb {
						t[k] = "yes"
					}
				}
			}
			what = append(what, "JSON member holds a string where a boolean is expected")
		case 0:
			f.In = nil
			what = append(what, "nil nested pointer")
		case 1:
			f.PArr[0] = nil
			what = append(what, "nil slice element")
		case 2:
			f.Arr = f.Arr[:1]
			f.Idx = 1
			what = append(what, "short slice")
		case 3:
			delete(f.M, "k2")
			delete(f.M, f.Key)
			what = append(what, "missing map key")
		case 4:
			delete(st["J"].(*JSONFact).Tree.(map[string]interface{}), "age")
			what = append(what, "missing JSON member")
		case 5:
			st["J"].(*JSONFact).Tree.(map[string]interface{})["age"] = "forty"
			what = append(what, "JSON kind mismatch")
		case 6:
			delete(st, "G")
			what = append(what, "missing fact")
		case 7:
			f.PN = nil
			what = append(what, "nil pointer to number")
		case 8:
			f.MP["a"] = nil
			what = append(what, "nil map value")
		default:
			f.U8 = 0
			f.A = 0
			what = append(what, "zero divisor")
		}
	}
	return what
}

func runC14Case(c *Ctx, idx int) *CaseResult {
	cr := &CaseResult{}
	if idx < len(c14KindCases) {
		return runC14KindCase(c, idx, cr)
	}
	idx -= len(c14KindCases)
	r := c.Rng(idx, 0)
	static := idx%3 == 2
	var prog *Program
	if static {
		o := TraceOpts{MinRules: 2, MaxRules: 6, MinPool: 4, MaxPool: 8, Control: true, Calls: false, Strs: true, Depth: 3, Faulty: true, NoComplete: true}
		prog = GenTraceProgram(r, o)
	} else {
		prog, _ = genC14(r)
	}
	style := traceStyle(c.Rng(idx, 1))
	if style.Redundant {
		DecorateProgram(prog, c.Rng(idx, 2))
	}
	pipeline := []string{"one", "grb"}[r.Intn(2)]
	lib, text, err := BuildVia(pipeline, prog, style)
	if err != nil {
		cr.inconclusive("generated program rejected by the builder (judged by C17)")
		if idx < 6 {
			fmt.Printf("note: case %d build failed: %v\n%s\n", idx, err, trunc(text, 700))
		}
		return cr
	}
	init := GenState(c.Rng(idx, 100))
	if static {
		what := hostileState(c.Rng(idx, 101), init)
		for _, retErr := range []bool{false, true} {
			kb, err := NewInstance(lib)
			if err != nil {
				cr.inconclusive("instance creation failed (judged by C09)")
				continue
			}
			cfg := RunCfg{MaxCycle: 12, RetErr: retErr}
			res := Run(kb, prog, CopyStateLive(init), cfg)
			cr.Evals++
			a := Analyze(prog, res, cfg, nil)
			vs := MonFaultContainment(a, nil)
			vs = append(vs, MonReplayEqual(a)...)
			vs = append(vs, MonCandidatesComplete(a)...)
			vs = append(vs, MonFiresOnlyWhenTrue(a)...)
			if len(vs) > 0 {
				cr.violate(joinViol(vs[:min(3, len(vs))]), caseDetail(text, pipeline, init, res, vs))
				continue
			}
			// non-trivial: the reference saw a failing condition or action in a judged cycle
			for _, ci := range a.evalJudged() {
				if ci.Rec == nil {
					continue
				}
				for name := range ci.Active {
					if ci.Rec.Truth[name].Err {
						cr.inc("static_condition_failures")
						cr.NonTrivial = append(cr.NonTrivial, hashStr(fmt.Sprintf("%s|%v|%d|%s", text, retErr, ci.N, name)))
					}
				}
				if ci.RefErrAt >= 0 && len(ci.SetRules) > 0 {
					cr.inc(fmt.Sprintf("static_action_failures_at_stmt_%d", ci.RefErrAt))
					cr.NonTrivial = append(cr.NonTrivial, hashStr(fmt.Sprintf("%s|%v|act%d", text, retErr, ci.N)))
				}
			}
			for _, w := range what {
				cr.set("static_fault_kinds", w)
			}
		}
		return cr
	}
	// dynamic part: fault-free run counts the calls, then every k fails in every flavour
	kb, err := NewInstance(lib)
	if err != nil {
		cr.inconclusive("instance creation failed (judged by C09)")
		return cr
	}
	cfg := RunCfg{MaxCycle: 10}
	base := Run(kb, prog, CopyStateLive(init), RunCfg{MaxCycle: 10, Hooks: &Hooks{}})
	cr.Evals++
	ncalls := len(base.Calls)
	if ncalls == 0 {
		cr.inconclusive("no harness-method call in the fault-free run")
		return cr
	}
	maxK := 60
	if c.Tier == "thorough" {
		maxK = 200
	}
	ks := make([]int, 0, ncalls)
	for k := 1; k <= ncalls; k++ {
		ks = append(ks, k)
	}
	if len(ks) > maxK {
		pr := c.Rng(idx, 5)
		pr.Shuffle(len(ks), func(i, j int) { ks[i], ks[j] = ks[j], ks[i] })
		ks = ks[:maxK]
	}
	for _, k := range ks {
		// the flavour that makes the k-th call's site fail, and panic
		name := base.Calls[k-1].Name
		// map order may make another call the k-th one in the faulty run: "site" selects the
		// flavour that fits whichever method is hit
		for _, fl := range []string{"panic", "site"} {
			retErr := (k+len(fl))%2 == 0
			kb, err := NewInstance(lib)
			if err != nil {
				cr.inconclusive("instance creation failed (judged by C09)")
				continue
			}
			h := &Hooks{FaultAt: k, Flavour: fl}
			cfg = RunCfg{MaxCycle: 10, RetErr: retErr, Hooks: h}
			res := Run(kb, prog, CopyStateLive(init), cfg)
			cr.Evals++
			a := Analyze(prog, res, cfg, nil)
			vs := MonFaultContainment(a, h)
			if len(vs) > 0 {
				d := caseDetail(text, pipeline, init, res, vs)
				d["fault_at_call"] = k
				d["flavour"] = fl
				d["return_err_flag"] = retErr
				cr.violate(fmt.Sprintf("fault %s at call %d (%s): %s", fl, k, name, joinViol(vs[:min(2, len(vs))])), d)
				continue
			}
			if h.Fired {
				site := "condition"
				for _, e := range res.Events {
					if e.Kind == "method" && e.Fault != "" {
						for _, ci := range a.Cycles {
							if ci.ActSeqLo > 0 && e.Seq > ci.ActSeqLo && (ci.ActSeqHi == 0 || e.Seq < ci.ActSeqHi) {
								site = "action"
							}
						}
					}
				}
				cr.inc("fault_fired_" + fl + "_in_" + site)
				cr.NonTrivial = append(cr.NonTrivial, hashStr(fmt.Sprintf("%s|%d|%s", text, k, fl)))
			} else {
				cr.inc("fault_not_reached")
			}
		}
	}
	if cr.Sample == nil {
		cr.Sample = map[string]interface{}{"grl": trunc(text, 1200), "fault_free_calls": ncalls, "positions_tried": len(ks)}
	}
	return cr
}

func init() {
	register(&Check{
		ID: "C14", Level: "fault_enumeration",
		Rule: "dynamic part: per program a fault-free run counts the N harness-method calls, then for every k<=N (all up to 60 quick / 200 thorough, a seeded sample beyond) the k-th call fails as {panic} + the flavour of its site {zero used as % divisor, nil pointer whose field is read, out-of-range index, wrong-kind value}, alternating ReturnErrOnFailedRuleEvaluation; fault sites sit in conditions (one shared by two rules) and in the 1st/2nd/3rd action statement. static part (every third case): hostile states (nil nested pointer, nil slice element, short slice, missing map key / JSON member / fact, JSON kind mismatch, zero divisor) with reference-predicted failures, both flag settings. non-trivial = distinct (program, k, flavour) whose fault actually fired / distinct (program, cycle, rule) with a reference-predicted failure; deterministic part: 15 operators x 9 left x 13 right operands of mismatching families incl. nil pointer (the reference decides which applications fail), each under a negation, compared with false, left of ||, bare, as the right-hand side of an action and as a compound assignment, both flag settings, with a witness rule that must fire undisturbed; the table ends with applications that fail for other reasons: patterns that do not compile, string-keyed maps read with an integer, integer-keyed map and slice read with a string",
		Assume: []string{"a fault fired inside a condition makes that evaluation fail (no operator swallows errors)", "reference interpreter"},
		Cases:  func(t string) int { return tierN(1200, 30000)(t) + len(c14KindCases) },
		Run:    runC14Case,
	})
}

func exprHasSite(e *Expr, id int64) bool {
	found := false
	e.Walk(func(x *Expr) {
		if x.Op == "call" && len(x.Args) > 0 && x.Args[0].Op == "lit" && x.Args[0].Lit.K == TInt && x.Args[0].Lit.I == id {
			switch x.Fn {
			case "Chk", "Ptr", "Idx0", "Kind", "Two", "Boom":
				found = true
			}
		}
	})
	return found
}
