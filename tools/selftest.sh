#!/bin/bash
# Mutation self-test (not a MANIFEST check): every patch of selftest/MAP.txt is applied to a scratch
# copy of /repo and the mapped checks must exit 1 at the quick tier. Prints one line per (patch, check).
cd "$(dirname "$0")/.."
fail=0
grep -v '^#' selftest/MAP.txt | while read patch checks; do
  [ -z "$patch" ] && continue
  out=$(tools/mutant.sh "selftest/$patch" $checks 2>&1 | grep -E "^mutant|PATCH DOES NOT|DOES NOT BUILD")
  echo "$out" | sed 's/ [0-9]* violation lines//'
done
