#!/usr/bin/env python3
"""Generates /verif/MANIFEST.json from the table below (single source of truth for the interface)."""
import json, os, subprocess, sys

HERE = os.path.dirname(os.path.dirname(os.path.abspath(__file__)))

# id -> (category, technique, level text, level note, design ref)
CHECKS = {
 "C01": ("exploration", "trace monitor vs reference interpreter (from-scratch truth at every BeginCycle)",
         "Runs the real engine on thousands of generated rule sets x fact states through four build pipelines; at every BeginCycle an independent reference interpreter evaluates every rule condition from scratch on a deep copy of the live facts; any candidate flag or firing on a false/failing/retracted rule is a violation. Held on the executions listed in the evidence, nothing more.",
         "Trusted: harness reference interpreter (ref.go), the listener/data-context proxy as observation channel (validated by C06's protocol monitor), generated domain only.", "DESIGN §5 C01"),
 "C02": ("exploration", "trace monitor vs reference interpreter (candidate completeness, quiescence at return)",
         "Same executions as C01's generator; every active rule whose reference truth is true must be reported as candidate in that cycle, and a nil return without Complete must be quiescent on the final facts.",
         "Trusted: reference interpreter; domain restrictions of DESIGN §5 C01.", "DESIGN §5 C02"),
 "C03": ("exploration", "trace monitor: reference conflict set recomputed per cycle, 8 runs per case for map-order variety",
         "Conflict-set profile (many simultaneously true rules, extreme/equal/negative saliences in all notations); the fired rule must be maximal in the independently recomputed conflict set, one firing per cycle, whole action list applied before the next evaluation, entry salience equals the declared literal.",
         "Trusted: reference interpreter; ties may be broken arbitrarily.", "DESIGN §5 C03"),
 "C04": ("exploration", "deep state comparison after every firing vs independent replay",
         "Assignment-matrix profile; after each firing the whole fact universe (Go objects, JSON tree, data-context entries) is deep-compared, with dynamic kinds, against the reference application of the fired rule's action list.",
         "Trusted: reference store semantics (ref.go storeGo); values within destination range (else inconclusive tail).", "DESIGN §5 C04"),
 "C06": ("exploration", "protocol automaton over listener/data-context events + budget enumeration around the natural run length",
         "MaxCycle enumerated over {0,1,n-1,n,n+1,n+2}; event protocol (consecutive cycle numbers, each active rule evaluated exactly once with its real flag, <=1 execution of a reported candidate, listeners agree), cycle-limit error exactly when one more firing is needed; non-termination detected on logical steps (BeginCycle count), never on wall-clock.",
         "Trusted: reference interpreter for 'needed firings'; bounded-progress restatement of 'always returns'.", "DESIGN §5 C06"),
 "C10": ("exploration", "trace monitor: retracted set replayed from the fired rules' own action lists",
         "Control profile (self/other/multiple/unknown Retract, Complete at every position); retracted rules are never evaluated or fired again in the call, all others still are; after Complete the remaining statements run, nothing further happens, nil is returned.",
         "Trusted: reference interpreter; Function_en reading of Retract (stays out until next Execute).", "DESIGN §5 C10"),
}

NOT_YET = {}

def main():
    props = [json.loads(l) for l in open(os.path.join(HERE, "properties.jsonl"))]
    ids = [p["id"] for p in props]
    checks = []
    na = []
    for pid in ids:
        if pid in CHECKS:
            cat, tech, text, note, ref = CHECKS[pid]
            checks.append({
                "property_id": pid,
                "quick_cmd": "./check %s quick" % pid,
                "thorough_cmd": "./check %s thorough" % pid,
                "evidence_file": "evidence/%s.json" % pid,
                "replay_cmd_template": "./check %s --replay {path}" % pid,
                "engine": "harness",
                "level_claimed": {"category": cat, "text": text, "design_ref": ref},
                "level_note": note,
                "technique": tech,
            })
        else:
            na.append({"property_id": pid, "reason": NOT_YET.get(pid, "check not built yet (work in progress in this session; runtime monitoring applies, see DESIGN.md §5)")})
    hooks_commits = []
    m = {
        "version": 1,
        "setup_cmd": "./setup.sh",
        "hooks": {
            "guard": "verif",
            "enable": "go build -tags verif (passed on every harness build; no source hook is needed: all observation goes through the public listener / data-context / io interfaces)",
            "baseline_off_cmd": "cd /repo && GOFLAGS=-mod=mod GOPROXY=off GOTOOLCHAIN=local PATH=/root/go/pkg/mod/golang.org/toolchain@v0.0.1-go1.24.4.linux-amd64/bin:$PATH go test -json -vet=off -count=1 -timeout 25m ./...",
            "source_commits": hooks_commits,
            "add_only": True,
        },
        "engines": [{"name": "harness", "path": "harness", "serves_properties": sorted(CHECKS.keys()),
                     "kind_free_text": "Go module linked against /repo's working tree: generators, independent reference interpreter, recorder (listener + data-context proxy + hooked fact methods), trace monitors, fault/cancel enumerators, child-process sandbox, race-detector builds"}],
        "checks": checks,
        "not_applicable": na,
        "notes": "Technique family: runtime monitoring and sanitizers. Exit codes: 0 held on everything explored, 1 violation (VIOLATION line), 2 inconclusive/broken run. known_findings.json lists recorded defects (open) and repaired ones (fixed).",
    }
    json.dump(m, open(os.path.join(HERE, "MANIFEST.json"), "w"), indent=1)
    print("wrote MANIFEST.json: %d checks, %d not_applicable" % (len(checks), len(na)))

if __name__ == "__main__":
    main()
