package main

// C08, deterministic part: a call on malformed facts (a boolean slot holds a string / a number)
// followed, on the SAME instance, by well-formed calls whose facts make the same condition
// node short-circuit or evaluate in full. Whatever the first call remembered - also a failure -
// must be gone.

import (
	"fmt"
	"reflect"
	"strings"
)

type c08Directed struct {
	Op     string // && or ||
	Slot   string // F.AnyB, F.MAny["b"], J.ok
	RetErr bool
	Middle bool // a well-formed call that evaluates both operands in between
}

var c08DirectedCases = func() []c08Directed {
	var out []c08Directed
	for _, op := range []string{"&&", "||"} {
		for _, slot := range []string{"F.AnyB", `F.MAny["b"]`, "J.ok"} {
			for _, re := range []bool{false, true} {
				for _, mid := range []bool{false, true} {
					out = append(out, c08Directed{op, slot, re, mid})
				}
			}
		}
	}
	// appended: a JSON member / nested member / array element that is null in a later call
	for _, slot := range []string{"J.age", "J.obj.n", "J.arr[0]", "J.name"} {
		for _, re := range []bool{false, true} {
			out = append(out, c08Directed{Op: "null", Slot: slot, RetErr: re})
		}
	}
	return out
}()

// runC08Null: the member holds a value in the first call and is null afterwards (and the other
// way round): a null is a value that can not be compared - never the value of an earlier call.
func runC08Null(c *Ctx, t int, cr *CaseResult) *CaseResult {
	d := c08DirectedCases[t]
	var member *Expr
	var cond *Expr
	switch d.Slot {
	case "J.age":
		member = VarE(P("J.age"), TFloat, reflect.Float64)
		cond = Bin(">", TBool, member, LitI(10))
	case "J.obj.n":
		member = VarE(P("J.obj.n"), TFloat, reflect.Float64)
		cond = Bin(">", TBool, member, LitI(10))
	case "J.arr[0]":
		member = VarE(P("J.arr", 0), TFloat, reflect.Float64)
		cond = Bin(">", TBool, member, LitI(10))
	default:
		member = VarE(P("J.name"), TStr, reflect.String)
		cond = Bin("==", TBool, member, LitS("al"))
	}
	member.GK = int(reflect.Ptr)
	then := func(n string, v int64) []*Stmt {
		return []*Stmt{Assign(P("F.B"), "=", Bin("+", TInt, VarE(P("F.B"), TInt, reflect.Int64), LitI(v))), {Kind: "retract", Name: n}}
	}
	prog := &Program{Rules: []*Rule{
		{Name: "High", Desc: "reads the member", HasSal: true, Sal: 3, When: cond, Then: then("High", 1)},
		{Name: "Not", Desc: "reads it under a negation", HasSal: true, Sal: 2, When: Not(cond), Then: then("Not", 10)},
		{Name: "Other", Desc: "does not read it", HasSal: true, Sal: 1, When: Bin("<", TBool, VarE(P("F.B"), TInt, reflect.Int64), LitI(1000)), Then: then("Other", 100)},
	}}
	text := PlainStyle.PrintProgram(prog)
	lib, err := BuildLib(text)
	if err != nil {
		cr.inconclusive("directed program rejected by the builder: " + trunc(err.Error(), 60))
		return cr
	}
	kb, err := NewInstance(lib)
	if err != nil {
		cr.inconclusive("instance creation failed (judged by C09)")
		return cr
	}
	set := func(st State, v interface{}) {
		tree := st["J"].(*JSONFact).Tree.(map[string]interface{})
		switch d.Slot {
		case "J.age":
			tree["age"] = v
		case "J.obj.n":
			tree["obj"].(map[string]interface{})["n"] = v
		case "J.arr[0]":
			tree["arr"].([]interface{})[0] = v
		default:
			tree["name"] = v
		}
	}
	var good, other interface{} = float64(40), float64(3)
	if d.Slot == "J.name" {
		good, other = "al", "zed"
	}
	var hist []string
	for k, v := range []interface{}{good, nil, other, nil, good, nil} {
		init := GenState(c.Rng(t, 600+k))
		init["F"].(*Fact).B = 0
		set(init, v)
		cfg := RunCfg{MaxCycle: 8, RetErr: d.RetErr}
		res := Run(kb, prog, CopyStateLive(init), cfg)
		cr.Evals++
		hist = append(hist, fmt.Sprintf("%s=%v", d.Slot, v))
		a := Analyze(prog, res, cfg, nil)
		if a.DomainFrom >= 0 {
			cr.inc("directed_calls_outside_domain")
			continue
		}
		var vs []Violation
		if res.Panic != nil {
			vs = append(vs, Violation{"C08", 0, "", fmt.Sprintf("panic: %v", res.Panic)})
		}
		vs = append(vs, MonFiresOnlyWhenTrue(a)...)
		vs = append(vs, MonCandidatesComplete(a)...)
		vs = append(vs, MonReplayEqual(a)...)
		vs = append(vs, MonFaultContainment(a, nil)...)
		if len(vs) > 0 {
			dd := caseDetail(text, "one", init, res, vs)
			dd["history"] = hist
			cr.violate(fmt.Sprintf("call %d of the history (%s) on one instance, ReturnErrOnFailedRuleEvaluation=%v: %s", k+1, strings.Join(hist, " -> "), d.RetErr, joinViol(vs[:min(2, len(vs))])), dd)
			return cr
		}
		if k > 0 {
			cr.NonTrivial = append(cr.NonTrivial, fmt.Sprintf("directednull|%d|%d", t, k))
		}
	}
	cr.inc("directed_null_after_value_histories")
	return cr
}

func c08SlotExpr(slot string) *Expr {
	var e *Expr
	switch slot {
	case "F.AnyB":
		e = VarE(P("F.AnyB"), TBool, reflect.Bool)
	case "J.ok":
		e = VarE(P("J.ok"), TBool, reflect.Bool)
		return e
	default:
		e = VarE(P("F.MAny", "b"), TBool, reflect.Bool)
	}
	e.GK = int(reflect.Ptr) // read through an interface
	return e
}

func c08SetSlot(st State, slot string, v interface{}) {
	f := st["F"].(*Fact)
	switch slot {
	case "F.AnyB":
		f.AnyB = v
	case "J.ok":
		st["J"].(*JSONFact).Tree.(map[string]interface{})["ok"] = v
	default:
		f.MAny["b"] = v
	}
}

func runC08Directed(c *Ctx, t int, cr *CaseResult) *CaseResult {
	d := c08DirectedCases[t]
	if d.Op == "null" {
		return runC08Null(c, t, cr)
	}
	cond := func() *Expr { return Bin(d.Op, TBool, VarE(P("F.Fl"), TBool, reflect.Bool), c08SlotExpr(d.Slot)) }
	then := func(n string, v int64) []*Stmt {
		return []*Stmt{Assign(P("F.B"), "=", Bin("+", TInt, VarE(P("F.B"), TInt, reflect.Int64), LitI(v))), {Kind: "retract", Name: n}}
	}
	prog := &Program{Rules: []*Rule{
		{Name: "Gold", Desc: "shares the condition", HasSal: true, Sal: 3, When: cond(), Then: then("Gold", 1)},
		{Name: "Bonus", Desc: "shares the condition", HasSal: true, Sal: 2, When: cond(), Then: then("Bonus", 10)},
		{Name: "Outer", Desc: "the condition as an operand", HasSal: true, Sal: 1, When: Bin("||", TBool, cond(), VarE(P("F.T"), TBool, reflect.Bool)), Then: then("Outer", 100)},
	}}
	text := PlainStyle.PrintProgram(prog)
	lib, err := BuildLib(text)
	if err != nil {
		cr.inconclusive("directed program rejected by the builder: " + trunc(err.Error(), 60))
		return cr
	}
	kb, err := NewInstance(lib)
	if err != nil {
		cr.inconclusive("instance creation failed (judged by C09)")
		return cr
	}
	type call struct {
		name string
		fl   bool
		slot interface{}
	}
	// the value of F.Fl that makes the operator look at its right operand / decide alone
	nonDeciding, deciding := d.Op == "&&", d.Op == "||"
	calls := []call{{"malformed facts", nonDeciding, "yes"}}
	if d.Middle {
		calls = append(calls, call{"well-formed, both operands read", nonDeciding, true})
	}
	calls = append(calls, call{"well-formed, left operand decides", deciding, false}, call{"malformed number", nonDeciding, int64(1)},
		call{"well-formed, left operand decides", deciding, true}, call{"well-formed, both operands read", nonDeciding, false})
	var hist []string
	for k, cl := range calls {
		init := GenState(c.Rng(t, 500+k))
		f := init["F"].(*Fact)
		f.Fl, f.T, f.B = cl.fl, false, 0
		c08SetSlot(init, d.Slot, cl.slot)
		cfg := RunCfg{MaxCycle: 8, RetErr: d.RetErr}
		res := Run(kb, prog, CopyStateLive(init), cfg)
		cr.Evals++
		hist = append(hist, cl.name)
		a := Analyze(prog, res, cfg, nil)
		var vs []Violation
		if res.Panic != nil {
			vs = append(vs, Violation{"C08", 0, "", fmt.Sprintf("panic: %v", res.Panic)})
		}
		vs = append(vs, MonFiresOnlyWhenTrue(a)...)
		vs = append(vs, MonCandidatesComplete(a)...)
		vs = append(vs, MonMaxSalience(a)...)
		vs = append(vs, MonReplayEqual(a)...)
		vs = append(vs, MonProtocol(a)...)
		vs = append(vs, MonFaultContainment(a, nil)...)
		if len(vs) > 0 {
			dd := caseDetail(text, "one", init, res, vs)
			dd["history"] = hist
			cr.violate(fmt.Sprintf("call %d of the history (%s) on one instance, condition F.Fl %s %s, ReturnErrOnFailedRuleEvaluation=%v: %s",
				k+1, strings.Join(hist, " -> "), d.Op, d.Slot, d.RetErr, joinViol(vs[:min(2, len(vs))])), dd)
			return cr
		}
		if k > 0 {
			cr.NonTrivial = append(cr.NonTrivial, fmt.Sprintf("directed|%d|%d", t, k))
		}
	}
	cr.inc("directed_malformed_then_well_formed_histories")
	return cr
}
