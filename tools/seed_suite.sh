#!/bin/bash
# Runs the repository suite (plus the property's own check) for kept seeded changes whose meta.json has no suite result yet.
cd "$(dirname "$0")/.."
for d in seeded/*/; do
  id=$(basename "$d"); prop=${id%%-*}
  if ! grep -q suite_with_change "$d/meta.json" 2>/dev/null; then
    echo "=== $id"
    python3 tools/seed_eval.py "$d" "$id" "$prop" "$prop" 2>&1 | grep -E "KEPT|REJECT" | cut -c1-200
  fi
done
