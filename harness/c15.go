package main

// C15: cancellation stops the run before any further rule fires.
// Enumerated synchronous cancellation at every boundary event of the run, pre-cancelled and
// expired contexts, and an asynchronous stress part (built with -race).

import (
	"context"
	"errors"
	"fmt"
	"runtime"
	"strings"
	"sync/atomic"
	"time"
)

var c15Opts = TraceOpts{MinRules: 2, MaxRules: 6, MinPool: 3, MaxPool: 6, Control: true, NoComplete: true, Calls: true, Strs: false, Depth: 2, Marks: true, ManyTrue: true}

// MonCancelStops judges one cancelled run. p is the stamp of the cancellation instant.
func MonCancelStops(a *Analysis, p int64, snapAtCancel State, async bool) []Violation {
	var vs []Violation
	res := a.Res
	if res.Panic != nil {
		return []Violation{{"CancelStops", 0, "", fmt.Sprintf("panic escaped: %v", res.Panic)}}
	}
	// which cycle / window was running at p
	// the action list of a cycle may start when the last ExecuteRuleEntry listener has returned
	startOf := func(c *CycleInfo) int64 {
		if c.ActStart > 0 {
			return c.ActStart
		}
		return c.ActSeqLo
	}
	var running *CycleInfo // the cycle whose action list was executing at p
	for _, c := range a.Cycles {
		if startOf(c) > 0 && startOf(c) < p && (c.ActSeqHi == 0 || c.ActSeqHi > p) {
			running = c
		}
	}
	// no action effect of a firing that started after p
	for _, c := range a.Cycles {
		if startOf(c) > p || (startOf(c) == 0 && c.ActSeqLo > p) {
			// a SetRuleEntry after p is tolerated only when no effect of the action list exists
			for _, e := range res.Events {
				if e.Seq > c.ActSeqLo && (e.Kind == "method" || e.Kind == "inc" || e.Kind == "add") {
					vs = append(vs, Violation{"CancelStops", c.N, c.SetRules[0], "an action of a rule started after the cancellation instant took effect: " + e.String()})
					break
				}
			}
			if c.Completed {
				vs = append(vs, Violation{"CancelStops", c.N, c.SetRules[0], "a rule's action list was executed after the context had been cancelled"})
			}
		}
	}
	// facts
	if !async && a.DomainFrom < 0 {
		if running == nil {
			if snapAtCancel != nil {
				if d := DiffCanon(Canon(res.Final), Canon(snapAtCancel)); d != "" {
					vs = append(vs, Violation{"CancelStops", 0, "", "no rule was executing at the cancellation instant, yet the facts changed afterwards: " + d})
				}
			}
		} else if running.Rec != nil {
			// at most the remaining statements of the running rule: the final facts equal the
			// reference application of some prefix of its action list that includes everything
			// already applied (accept any prefix length; the engine today runs the list to its end)
			rule := a.Prog.Rule(running.SetRules[0])
			ok := false
			st := CopyState(running.Rec.Start)
			ctl := &Control{Retracted: map[string]bool{}}
			want := Canon(res.Final)
			if Canon(st) == want {
				ok = true
			}
			for _, s := range rule.Then {
				if err := ref.Apply(s, st, ctl); err != nil {
					break
				}
				if Canon(st) == want {
					ok = true
				}
			}
			if !ok {
				vs = append(vs, Violation{"CancelStops", running.N, rule.Name, "after cancellation inside this rule's action list the facts equal no prefix of that list applied to the facts before it (something else ran)"})
			}
		}
	}
	// return value
	ctxErr := a.Cfg.Ctx.Err()
	if res.Err == nil && running != nil && !async && !a.Complete {
		// the context ended while this rule's action list was executing: when the list is done the
		// engine is back at the top of its loop and must report the context's error
		vs = append(vs, Violation{"CancelStops", running.N, running.SetRules[0], "the context ended while this rule's action list was executing, but Execute returned nil afterwards instead of the context's error"})
	}
	if res.Err == nil {
		// legal only when nothing remained to be stopped: quiescent (or the running rule was the last)
		if a.DomainFrom < 0 {
			truth := TruthOf(a.Prog, CopyState(res.Final))
			last := a.Cycles[len(a.Cycles)-1]
			retracted := map[string]bool{}
			for n := range last.Active {
				_ = n
			}
			for _, c := range a.Cycles {
				if c.Ctl != nil && c.RefErrAt < 0 && len(c.SetRules) > 0 && (c.Completed) {
					for n := range c.Ctl.Retracted {
						retracted[n] = true
					}
				}
			}
			for _, rule := range a.Prog.Rules {
				t := truth[rule.Name]
				if !retracted[rule.Name] && t.Val && !t.Err && !t.Domain {
					vs = append(vs, Violation{"CancelStops", last.N, rule.Name, "the context was cancelled and a further firing was due, but Execute returned nil"})
					break
				}
			}
		}
	} else if !errors.Is(res.Err, ctxErr) {
		// the rule that was executing at the cancellation instant may run to its end - and fail there
		if running != nil && running.RefErrAt >= 0 && len(running.SetRules) > 0 && strings.Contains(res.Err.Error(), running.SetRules[0]) {
			return vs
		}
		// the cycle budget may be exhausted in the very cycle in which the context ended: after the
		// check in front of the last condition evaluation the engine has no reason to look at the
		// context again before it returns the cycle-limit error. That is the case exactly when at
		// most one evaluation (and no new cycle, no execution) was reported after the instant p.
		if a.limitDue() {
			later := 0
			for _, e := range res.Events {
				if e.L == 0 && e.Seq > p {
					switch e.Kind {
					case "eval":
						later++
					case "begin", "exec":
						later += 2
					}
				}
			}
			if later <= 1 {
				return vs
			}
		}
		vs = append(vs, Violation{"CancelStops", 0, "", fmt.Sprintf("Execute returned %q, which is not the context's error %v", trunc(res.Err.Error(), 120), ctxErr)})
	}
	return vs
}

var errC15Cause = errors.New("operator pulled the plug")

func runC15Case(c *Ctx, idx int) *CaseResult {
	cr := &CaseResult{}
	r := c.Rng(idx, 0)
	o := c15Opts
	o.SelfRetract = r.Intn(4) != 0
	prog := GenTraceProgram(r, o)
	style := traceStyle(c.Rng(idx, 1))
	if style.Redundant {
		DecorateProgram(prog, c.Rng(idx, 2))
	}
	lib, text, err := BuildVia("one", prog, style)
	if err != nil {
		cr.inconclusive("generated program rejected by the builder (judged by C17)")
		return cr
	}
	init := GenState(c.Rng(idx, 100))
	kb, err := NewInstance(lib)
	if err != nil {
		cr.inconclusive("instance creation failed (judged by C09)")
		return cr
	}
	const maxCycle = 14
	base := Run(kb, prog, CopyStateLive(init), RunCfg{MaxCycle: maxCycle})
	cr.Evals++
	ba := Analyze(prog, base, RunCfg{MaxCycle: maxCycle}, nil)
	if base.Err != nil || ba.DomainFrom >= 0 || len(ba.Firings()) < 2 {
		cr.inc("programs_skipped_not_terminating_or_trivial")
		return cr
	}
	E := base.NBound
	points := make([]int, 0, E)
	for e := 1; e <= E; e++ {
		points = append(points, e)
	}
	maxPts := 80
	if c.Tier == "thorough" {
		maxPts = 400
	}
	if len(points) > maxPts {
		pr := c.Rng(idx, 5)
		pr.Shuffle(len(points), func(i, j int) { points[i], points[j] = points[j], points[i] })
		points = points[:maxPts]
	}
	for _, e := range points {
		kb, err := NewInstance(lib)
		if err != nil {
			cr.inconclusive("instance creation failed (judged by C09)")
			continue
		}
		// alternate between a cancellation and a deadline that expires at this instant
		tctx, flavour := newTriggerCtxN(e)
		cfg := RunCfg{MaxCycle: maxCycle, Ctx: tctx, Cancel: tctx.trigger, CancelAtEvent: e}
		if e%5 == 4 {
			// a context cancelled with a cause: Err() is still Canceled, the cause is the caller's own error
			cctx, cancelCause := context.WithCancelCause(context.Background())
			cfg.Ctx, cfg.Cancel, flavour = cctx, func() { cancelCause(errC15Cause) }, "cancel_with_cause"
		}
		res := Run(kb, prog, CopyStateLive(init), cfg)
		cfg.Cancel()
		cr.Evals++
		a := Analyze(prog, res, cfg, nil)
		var p int64
		for _, ev := range res.Events {
			if ev.Kind == "cancel" {
				p = ev.Seq
			}
		}
		if p == 0 {
			cr.inc("cancel_point_not_reached")
			continue
		}
		vs := MonCancelStops(a, p, res.Rec.CancelSnap, false)
		if len(vs) > 0 {
			d := caseDetail(text, "one", init, res, vs)
			d["cancel_at_event"] = e
			d["cancel_kind"] = res.Rec.CancelKind
			d["flavour"] = flavour
			cr.violate(fmt.Sprintf("cancel at boundary event %d (%s): %s", e, res.Rec.CancelKind, joinViol(vs[:min(2, len(vs))])), d)
			continue
		}
		class := res.Rec.CancelKind
		if class == "method" {
			class = "inside_condition"
			for _, ci := range a.Cycles {
				if ci.ActSeqLo > 0 && ci.ActSeqLo < p && (ci.ActSeqHi == 0 || ci.ActSeqHi > p) {
					class = "inside_action"
				}
			}
		}
		cr.inc("cancel_points_" + class)
		cr.inc("points_ended_by_" + flavour)
		// non-trivial: a further firing was still due at the instant of cancellation
		if res.Err != nil {
			cr.NonTrivial = append(cr.NonTrivial, hashStr(fmt.Sprintf("%s|%d", text, e)))
		}
	}
	// every ctx.Err() call of the engine is a point at which the context may have just ended:
	// enumerate the call indices too (this reaches the windows between two consecutive checks,
	// which no boundary event separates)
	K := 0
	{
		kb, err := NewInstance(lib)
		if err == nil {
			cctx := newTriggerCtx(context.Canceled)
			Run(kb, prog, CopyStateLive(init), RunCfg{MaxCycle: maxCycle, Ctx: cctx, NoSnap: true})
			K = cctx.ErrCalls()
			cr.Evals++
		}
	}
	calls := make([]int, 0, K)
	for k := 1; k <= K; k++ {
		calls = append(calls, k)
	}
	if len(calls) > maxPts {
		pr := c.Rng(idx, 6)
		pr.Shuffle(len(calls), func(i, j int) { calls[i], calls[j] = calls[j], calls[i] })
		calls = calls[:maxPts]
	}
	for _, k := range calls {
		kb, err := NewInstance(lib)
		if err != nil {
			continue
		}
		tctx, flavour := newTriggerCtxN(k)
		cfg := RunCfg{MaxCycle: maxCycle, Ctx: tctx, Cancel: tctx.trigger, CancelAtErrCall: k}
		res := Run(kb, prog, CopyStateLive(init), cfg)
		tctx.trigger()
		cr.Evals++
		a := Analyze(prog, res, cfg, nil)
		var p int64
		for _, ev := range res.Events {
			if ev.Kind == "cancel" {
				p = ev.Seq
			}
		}
		if p == 0 {
			cr.inc("err_call_point_not_reached")
			continue
		}
		vs := MonCancelStops(a, p, res.Rec.CancelSnap, false)
		if len(vs) > 0 {
			d := caseDetail(text, "one", init, res, vs)
			d["context_ended_at_err_call"] = k
			d["flavour"] = flavour
			cr.violate(fmt.Sprintf("context ended just before its Err() call number %d: %s", k, joinViol(vs[:min(2, len(vs))])), d)
			continue
		}
		cr.inc("ctx_err_call_points")
		cr.inc("err_call_points_ended_by_" + flavour)
		if res.Err != nil {
			cr.NonTrivial = append(cr.NonTrivial, hashStr(fmt.Sprintf("%s|err%d", text, k)))
		}
	}
	// pre-cancelled and expired contexts
	for k := 0; k < 4; k++ {
		kb, err := NewInstance(lib)
		if err != nil {
			continue
		}
		var ctx context.Context
		var cancel context.CancelFunc
		switch k {
		case 3:
			cctx, cancelCause := context.WithCancelCause(context.Background())
			cancelCause(errC15Cause)
			ctx, cancel = cctx, func() {}
		case 0:
			ctx, cancel = context.WithCancel(context.Background())
			cancel()
		case 1:
			ctx, cancel = context.WithDeadline(context.Background(), time.Unix(1, 0))
		default:
			// cancelled early although its deadline is far away
			ctx, cancel = context.WithTimeout(context.Background(), 1000*time.Hour)
			cancel()
		}
		// every other program: on a data context that has been completed before
		cfg := RunCfg{MaxCycle: maxCycle, Ctx: ctx, PreComplete: idx%2 == 1}
		res := Run(kb, prog, CopyStateLive(init), cfg)
		cancel()
		cr.Evals++
		a := Analyze(prog, res, cfg, nil)
		bad := ""
		if len(a.Firings()) > 0 {
			bad = "a rule fired although the context was already cancelled / expired"
		} else if res.Err == nil || !errors.Is(res.Err, ctx.Err()) {
			bad = fmt.Sprintf("Execute returned %v for an already cancelled / expired context (want %v)", res.Err, ctx.Err())
		} else if DiffCanon(Canon(res.Final), Canon(init)) != "" {
			bad = "facts changed although the context was already cancelled"
		}
		if bad != "" {
			cr.violate(bad, caseDetail(text, "one", init, res, nil))
		} else {
			cr.inc([]string{"pre_cancelled_runs", "expired_deadline_runs", "pre_cancelled_with_future_deadline_runs", "pre_cancelled_with_cause_runs"}[k])
		}
	}
	// asynchronous part: a second goroutine cancels after a PRNG-chosen number of stamped events
	nAsync := 6
	for k := 0; k < nAsync; k++ {
		kb, err := NewInstance(lib)
		if err != nil {
			continue
		}
		ar := c.Rng(idx, 200+k)
		stamp := new(int64)
		ctx, cancel := context.WithCancel(context.Background())
		if k%2 == 1 {
			ctx, cancel = context.WithTimeout(context.Background(), 1000*time.Hour)
		}
		target := int64(1 + ar.Intn(len(base.Events)+2))
		var pstamp int64
		done := make(chan struct{})
		stop := make(chan struct{})
		go func() {
			defer close(done)
			for atomic.LoadInt64(stamp) < target {
				select {
				case <-stop:
					return
				default:
					runtime.Gosched()
				}
			}
			cancel()
			atomic.StoreInt64(&pstamp, atomic.AddInt64(stamp, 1))
		}()
		cfg := RunCfg{MaxCycle: maxCycle, Ctx: ctx, Stamp: stamp, Hooks: &Hooks{YieldP: 1 + ar.Intn(3)}}
		res := Run(kb, prog, CopyStateLive(init), cfg)
		close(stop)
		<-done
		cancel()
		cr.Evals++
		p := atomic.LoadInt64(&pstamp)
		if p == 0 {
			cr.inc("async_cancel_after_end")
			continue
		}
		a := Analyze(prog, res, cfg, nil)
		vs := MonCancelStops(a, p, nil, true)
		if len(vs) > 0 {
			d := caseDetail(text, "one", init, res, vs)
			d["async_cancel_stamp"] = p
			cr.violate("asynchronous cancel: "+joinViol(vs[:min(2, len(vs))]), d)
			continue
		}
		cr.inc("async_cancelled_runs")
		sig := ""
		for _, ev := range res.Events {
			if ev.Seq > p-3 && ev.Seq < p+3 {
				sig += ev.Kind[:1]
			}
		}
		cr.set("async_interleaving_signatures", fmt.Sprintf("%s@%d", sig, p))
	}
	if cr.Sample == nil {
		cr.Sample = map[string]interface{}{"grl": trunc(text, 1000), "boundary_events": E, "points_tried": len(points), "fired_without_cancel": ba.Firings()}
	}
	return cr
}

func init() {
	register(&Check{
		ID: "C15", Level: "fault_enumeration",
		Rule: "per terminating program (2-6 rules, every action list starts with T.Seq = T.Seq + 1; T.Mark(T.Seq)) a first run counts the E boundary events (BeginCycle, each EvaluateRuleEntry, ExecuteRuleEntry, each harness-method call inside a condition / an action); then for every e<=E (all up to 80 quick / 400 thorough, seeded sample beyond) the run is repeated with the context ended synchronously at event e, alternately by cancellation and by an expiring deadline; the same for every index k of the engine's own ctx.Err() calls (the context ends just before the k-th call: this reaches the windows between two consecutive checks); plus pre-cancelled, deadline in the past, and 6 asynchronous cancellations per program from a second goroutine (race-detector build, verdict from stamp order only); non-trivial = distinct (program, point) where a further firing was still due (Execute had to return the context error); contexts end in 4 flavours: cancelled, deadline expired, cancelled although a deadline far in the future is set, cancelled with a cause",
		Assume: []string{"programs contain no Complete() (what should win is unspecified)", "a nil return when cancellation landed in the final quiescent cycle is accepted", "any prefix of the running rule's action list is accepted after cancellation inside it"},
		Cases:  tierN(300, 8000),
		Run:    runC15Case,
		Finish: raceFinish,
	})
}
