package main

// C18: JSON rule definitions translate to GRL with the same meaning.
// A typed expression tree is rendered as a JSON operator tree with random operand forms (plain
// string, bare number / boolean, obj / const wrappers, operator objects, n-ary flattening); the
// translator's GRL is built and run by the engine and compared with the reference evaluation of
// the tree (operands grouped exactly as nested). Malformed rules must be rejected.

import (
	"encoding/json"
	"fmt"
	"math"
	"math/rand"
	"reflect"
	"strconv"
	"strings"

	"github.com/hyperjumptech/grule-rule-engine/ast"
	"github.com/hyperjumptech/grule-rule-engine/builder"
	"github.com/hyperjumptech/grule-rule-engine/pkg"
)

var jsonOp = map[string]string{"+": "plus", "-": "minus", "*": "mul", "/": "div", "%": "mod", "&": "band", "|": "bor",
	"==": "eq", "!=": "not", "<": "lt", "<=": "lte", ">": "gt", ">=": "gte", "&&": "and", "||": "or"}

// jsonNormalise rewrites the tree into what a JSON rule can say: !atom becomes atom == false,
// integral real literals are avoided (an integral JSON number denotes an integer).
func jsonNormalise(e *Expr) *Expr {
	if e == nil {
		return nil
	}
	c := *e
	c.Par = 0
	c.L, c.R = jsonNormalise(e.L), jsonNormalise(e.R)
	if e.Args != nil {
		c.Args = make([]*Expr, len(e.Args))
		for i, a := range e.Args {
			c.Args[i] = jsonNormalise(a)
		}
	}
	if e.Path != nil {
		p := &Path{Root: e.Path.Root}
		for _, st := range e.Path.Steps {
			p.Steps = append(p.Steps, Step{F: st.F, Sel: jsonNormalise(st.Sel)})
		}
		c.Path = p
	}
	if c.Op == "lit" && c.Lit.K == TFloat {
		l := *c.Lit
		if l.F == math.Trunc(l.F) && math.Abs(l.F) < 1<<62 {
			if g := l.F + 0.5; g != math.Trunc(g) {
				l.F = g
			} else {
				// still integral: the JSON number denotes an integer
				li := LitI(int64(l.F))
				return li
			}
		}
		c.Lit = &l
	}
	if c.Op == "lit" && c.Lit.K == TInt {
		l := *c.Lit
		c.Lit = &l
	}
	if c.Op == "not" && !(isBinOp(c.L.Op) || c.L.Op == "not") {
		return Bin("==", TBool, c.L, LitB(false))
	}
	return &c
}

// jsonExpressible: the tree only uses forms the JSON syntax can carry.
func jsonExpressible(e *Expr) bool {
	ok := true
	e.Walk(func(x *Expr) {
		switch x.Op {
		case "member":
			ok = false
		case "call":
			if x.Recv != nil && x.Recv.Op != "var" {
				ok = false
			}
		case "lit":
			if x.Lit.K == TInt && (x.Lit.I > 1<<52 || x.Lit.I < -(1<<52)) {
				ok = false
			}
			if x.Lit.K == TStr && !strings.EqualFold(x.Lit.S, strings.ToValidUTF8(x.Lit.S, "?")) {
				ok = false
			}
		}
	})
	return ok
}

type jsonRender struct {
	r      *rand.Rand
	nested bool // a lower-precedence operator nested in a higher one was rendered
	escStr bool // a string needing escapes was rendered
	forms  map[string]int
}

func (j *jsonRender) form(n string) { j.forms[n]++ }

// operand renders e in operand position of a non-compound operator.
func (j *jsonRender) operand(e *Expr, mustObject bool) interface{} {
	switch e.Op {
	case "lit":
		if e.Lit.K == TStr && strings.ContainsAny(e.Lit.S, "\"'\\\n\t\r") || e.Lit.K == TStr && !isASCII(e.Lit.S) {
			j.escStr = true
		}
		switch k := j.r.Intn(3); {
		case k == 0 && !mustObject && e.Lit.K != TStr:
			j.form("bare_constant")
			switch e.Lit.K {
			case TInt:
				return float64(e.Lit.I)
			case TFloat:
				return e.Lit.F
			case TBool:
				return e.Lit.B
			}
		case k == 1 && !mustObject:
			j.form("plain_string_literal")
			return PlainStyle.PrintLit(e.Lit)
		}
		j.form("const_wrapper")
		switch e.Lit.K {
		case TInt:
			return map[string]interface{}{"const": float64(e.Lit.I)}
		case TFloat:
			return map[string]interface{}{"const": e.Lit.F}
		case TBool:
			return map[string]interface{}{"const": e.Lit.B}
		default:
			return map[string]interface{}{"const": e.Lit.S}
		}
	case "var":
		text := j.pathText(e.Path)
		if j.r.Intn(2) == 0 && !mustObject {
			j.form("plain_string_object")
			return text
		}
		j.form("obj_wrapper")
		return map[string]interface{}{"obj": text}
	}
	return j.object(e)
}

func isASCII(s string) bool {
	for i := 0; i < len(s); i++ {
		if s[i] >= 0x80 {
			return false
		}
	}
	return true
}

// pathText: selectors inside a path are raw GRL text (a path is one string in JSON).
func (j *jsonRender) pathText(p *Path) string { return PlainStyle.PrintPath(p) }

// object renders an operator / call node as an operator object.
func (j *jsonRender) object(e *Expr) map[string]interface{} {
	switch {
	case e.Op == "call":
		name := e.Fn
		if e.Recv != nil {
			name = j.pathText(e.Recv.Path) + "." + e.Fn
		}
		ops := []interface{}{name}
		for _, a := range e.Args {
			ops = append(ops, j.operand(a, false))
		}
		j.form("call")
		return map[string]interface{}{"call": ops}
	case e.Op == "not":
		j.form("one_operand_not")
		return map[string]interface{}{"not": []interface{}{j.object(e.L)}}
	case e.Op == "&&" || e.Op == "||":
		// operands must be objects; flatten the left spine into an n-ary list sometimes
		var list []*Expr
		if j.r.Intn(2) == 0 {
			cur := e
			for cur.Op == e.Op {
				list = append([]*Expr{cur.R}, list...)
				cur = cur.L
			}
			list = append([]*Expr{cur}, list...)
			if len(list) > 2 {
				j.form("n_ary_flattened")
			}
		} else {
			list = []*Expr{e.L, e.R}
		}
		var ops []interface{}
		for _, o := range list {
			ops = append(ops, j.operand(o, true))
			if isBinOp(o.Op) && publishedPrec[o.Op] < publishedPrec[e.Op] {
				j.nested = true
			}
		}
		return map[string]interface{}{jsonOp[e.Op]: ops}
	}
	// other binary operators
	var list []*Expr
	nary := e.Op == "+" || e.Op == "-" || e.Op == "*" || e.Op == "/" || e.Op == "&" || e.Op == "|"
	if nary && j.r.Intn(2) == 0 {
		cur := e
		for cur.Op == e.Op {
			list = append([]*Expr{cur.R}, list...)
			cur = cur.L
		}
		list = append([]*Expr{cur}, list...)
		if len(list) > 2 {
			j.form("n_ary_flattened")
		}
	} else {
		list = []*Expr{e.L, e.R}
	}
	var ops []interface{}
	for _, o := range list {
		ops = append(ops, j.operand(o, false))
		if isBinOp(o.Op) && publishedPrec[o.Op] < publishedPrec[e.Op] {
			j.nested = true
		}
	}
	return map[string]interface{}{jsonOp[e.Op]: ops}
}

func c18Rule(name, desc string, sal int64, when interface{}, then []interface{}) map[string]interface{} {
	return map[string]interface{}{"name": name, "desc": desc, "salience": sal, "when": when, "then": then}
}

var c18Descs = []string{"", "plain description", "with 'single' quotes", "ünïcode ✓", "with \"double\" quotes", "back\\slash", "tab\tand\nnewline"}

// translate runs the JSON text through one of the three entry points and builds it.
func c18Translate(via int, data []byte, array bool) (grl string, lib *ast.KnowledgeLibrary, terr, berr error, panicked interface{}) {
	defer func() {
		if p := recover(); p != nil {
			panicked = p
		}
	}()
	switch via {
	case 0:
		if array {
			grl, terr = pkg.ParseJSONRuleset(data)
		} else {
			grl, terr = pkg.ParseJSONRule(data)
		}
	default:
		var res pkg.Resource
		res, terr = pkg.NewJSONResourceFromResource(pkg.NewBytesResource(data))
		if terr == nil {
			var b []byte
			b, terr = res.Load()
			grl = string(b)
		}
	}
	if terr != nil {
		return
	}
	lib = ast.NewKnowledgeLibrary()
	berr = builder.NewRuleBuilder(lib).BuildRuleFromResource(kbName, kbVer, pkg.NewBytesResource([]byte(grl)))
	return
}

func runC18Case(c *Ctx, idx int) *CaseResult {
	cr := &CaseResult{}
	if t := idx - (len(c18Malformed) + len(c18LookAlikes) + tierN(2500, 80000)(c.Tier)); t >= 0 {
		return runC18Set(c, t, cr)
	}
	if idx < len(c18Malformed) {
		return runC18Malformed(c, idx, cr)
	}
	r := c.Rng(idx, 0)
	st := GenState(c.Rng(idx, 1))
	g := &Gen{R: r, Pool: catalogBy(func(v VarSpec) bool { return v.Class != "slice-expr" && v.Class != "map-expr" }), Calls: true, Strs: true, Times: false}
	var e *Expr
	if t := idx - len(c18Malformed); t < len(c18LookAlikes) {
		// constants that print alike but are of different kinds, in otherwise identical rules
		e = c18LookAlikes[t]
		cr.inc("look_alike_constant_cases")
	}
	depth := 4
	if c.Tier == "thorough" {
		depth = 5
	}
	for tries := 0; tries < 40 && e == nil; tries++ {
		ty := []Ty{TInt, TInt, TFloat, TStr, TBool, TBool, TBool, TUint}[r.Intn(8)]
		raw := g.Expr(ty, 1+r.Intn(depth))
		// number constants of every magnitude
		raw.Walk(func(x *Expr) {
			if x.Op == "lit" && x.Lit.K == TFloat && r.Intn(6) == 0 {
				x.Lit.F = []float64{1e21, -1e21, 1.5e300, 1e-7, 123456789.25, 9007199254740992, 1e19, 4294967296.5, 9223372036854775808, -9223372036854775808, 18446744073709551616}[r.Intn(11)]
			}
			if x.Op == "lit" && x.Lit.K == TInt && r.Intn(10) == 0 {
				x.Lit.I = []int64{1 << 40, -(1 << 40), 1000000, 4503599627370496}[r.Intn(4)]
			}
		})
		if raw.Ty == TBool && isBinOp(raw.Op) && r.Intn(8) == 0 {
			raw = Not(Not(raw)) // nested one-operand nots
			if r.Intn(3) == 0 {
				raw = Not(raw)
			}
		}
		cand := jsonNormalise(raw)
		if !jsonExpressible(cand) {
			continue
		}
		if cand.Op == "var" && cand.GK == int(reflect.Ptr) {
			continue
		}
		if _, err := refStrict.Eval(cand, CopyState(st)); err != nil {
			continue
		}
		e = cand
		break
	}
	if e == nil {
		cr.inconclusive("no in-domain expression found")
		return cr
	}
	jr := &jsonRender{r: c.Rng(idx, 2), forms: map[string]int{}}
	desc := c18Descs[r.Intn(len(c18Descs))]
	sal := []int64{0, 10, -3, 2147483647, -2147483648}[r.Intn(5)]
	sal2 := sal - 1
	if sal2 < -2147483648 {
		sal2 = sal
	}
	var rules []interface{}
	sinkThen := []interface{}{
		map[string]interface{}{"set": []interface{}{jr.operand(VarE(P("F.Any"), TAny, reflect.Interface), false), jr.operand(e, false)}},
		map[string]interface{}{"call": []interface{}{"Retract", map[string]interface{}{"const": "S"}}},
	}
	if r.Intn(3) == 0 {
		// actions may be plain strings too
		sinkThen[1] = []string{`Retract("S")`, `Retract("S");`}[r.Intn(2)]
	}
	var whenTrue interface{} = map[string]interface{}{"const": true}
	if r.Intn(2) == 0 {
		whenTrue = "true"
	}
	rules = append(rules, c18Rule("S", desc, sal, whenTrue, sinkThen))
	if e.Ty == TBool {
		var when interface{}
		if isBinOp(e.Op) || e.Op == "call" || e.Op == "not" {
			when = jr.object(e)
		} else {
			when = jr.operand(e, true)
		}
		rules = append(rules, c18Rule("Cnd", "condition", sal2, when, []interface{}{
			map[string]interface{}{"set": []interface{}{"G.B", 12345.0}},
			map[string]interface{}{"call": []interface{}{"Retract", map[string]interface{}{"const": "Cnd"}}}}))
	}
	prog := c05Program(e)
	prog.Rules[0].Sal = sal
	prog.Rules[0].Desc = desc
	if len(prog.Rules) > 1 {
		prog.Rules[1].Sal, prog.Rules[1].HasSal = sal2, true
	}
	// "desc" and "salience" are documented as optional (defaults "" and 0): leave them out of
	// some rules - in particular of a rule that follows one that gives them
	or := c.Rng(idx, 3)
	for i, ru := range rules {
		m := ru.(map[string]interface{})
		if or.Intn(4) == 0 {
			delete(m, "desc")
			prog.Rules[i].Desc = ""
			cr.inc("rules_without_desc")
		}
		// (the sink rule S must keep the higher salience when there is a condition rule)
		if or.Intn(4) == 0 && (len(rules) == 1 || (i == 1 && sal > 0) || (i == 0 && sal2 < 0)) {
			delete(m, "salience")
			prog.Rules[i].Sal, prog.Rules[i].HasSal = 0, false
			cr.inc("rules_without_salience")
		}
	}
	array := r.Intn(2) == 0 || len(rules) > 1
	var data []byte
	if array {
		data, _ = json.Marshal(rules)
	} else {
		data, _ = json.Marshal(rules[0])
	}
	via := r.Intn(2)
	grl, lib, terr, berr, pn := c18Translate(via, data, array)
	cr.Evals++
	detail := map[string]interface{}{"json": string(data), "grl": grl, "expression": ExprText(e)}
	if pn != nil {
		cr.violate(fmt.Sprintf("the JSON translator panicked: %v", pn), detail)
		return cr
	}
	if terr != nil {
		cr.violate("a well-formed JSON rule is rejected by the translator: "+terr.Error(), detail)
		return cr
	}
	if berr != nil {
		cr.violate("the GRL produced by the translator is rejected by the builder: "+berr.Error(), detail)
		return cr
	}
	for f, n := range jr.forms {
		cr.addn("operand_form_"+f, n)
	}
	// name / description / salience
	kbp := lib.GetKnowledgeBase(kbName, kbVer)
	for _, rule := range prog.Rules {
		re, ok := kbp.RuleEntries[rule.Name]
		if !ok {
			cr.violate("rule "+rule.Name+" of the JSON document is missing from the knowledge base", detail)
			return cr
		}
		if int64(re.Salience) != rule.Sal {
			cr.violate(fmt.Sprintf("rule %s: salience %d, the JSON says %d", rule.Name, re.Salience, rule.Sal), detail)
			return cr
		}
		if re.RuleDescription != rule.Desc {
			known := false
			if strconv.Quote(rule.Desc) != `"`+rule.Desc+`"` && re.RuleDescription == strings.Trim(strconv.Quote(rule.Desc), `"`) {
				if k, ok := findKnown(c, "K3"); ok {
					c.ReportKnown(k)
					cr.inc("known_finding_hits_K3")
					known = true
				}
			}
			if !known {
				cr.violate(fmt.Sprintf("rule %s: description %q, the JSON says %q", rule.Name, re.RuleDescription, rule.Desc), detail)
				return cr
			}
		}
	}
	kb, err := NewInstance(lib)
	if err != nil {
		cr.inconclusive("instance creation failed (judged by C09)")
		return cr
	}
	cfg := RunCfg{MaxCycle: 5}
	res := Run(kb, prog, CopyStateLive(st), cfg)
	cr.Evals++
	a := Analyze(prog, res, cfg, nil)
	if a.DomainFrom >= 0 {
		cr.inconclusive("reference left its domain")
		return cr
	}
	var vs []Violation
	if res.Panic != nil {
		vs = append(vs, Violation{"C18", 0, "", fmt.Sprintf("panic: %v", res.Panic)})
	}
	if res.Err != nil {
		vs = append(vs, Violation{"C18", 0, "", "the translated rule fails at run time: " + res.Err.Error()})
	}
	vs = append(vs, MonReplayEqual(a)...)
	vs = append(vs, MonFiresOnlyWhenTrue(a)...)
	vs = append(vs, MonCandidatesComplete(a)...)
	if len(vs) > 0 {
		detail["reference_value"] = refValueText(e, st)
		detail["engine_any"] = engineAny(res)
		cr.violate("the translated GRL does not mean what the JSON tree says: "+joinViol(vs[:min(2, len(vs))]), detail)
		return cr
	}
	if jr.nested || jr.escStr {
		cr.NonTrivial = append(cr.NonTrivial, hashStr(string(data)))
		if jr.nested {
			cr.inc("trees_nesting_lower_precedence_in_higher")
		}
		if jr.escStr {
			cr.inc("trees_with_strings_needing_escapes")
		}
	}
	if cr.Sample == nil && idx%41 == 0 {
		cr.Sample = map[string]interface{}{"json": trunc(string(data), 900), "grl": trunc(grl, 600), "via": []string{"ParseJSONRule(set)", "JSONResource"}[via]}
	}
	return cr
}

type malformed struct {
	Name string
	JSON string
}

var c18Malformed = []malformed{
	{"unknown operator", `{"name":"R","desc":"d","salience":1,"when":{"xor":["F.A",1]},"then":["F.B = 1"]}`},
	{"zero operands", `{"name":"R","desc":"d","salience":1,"when":{"eq":[]},"then":["F.B = 1"]}`},
	{"and with one operand", `{"name":"R","desc":"d","salience":1,"when":{"and":[{"eq":["F.A",1]}]},"then":["F.B = 1"]}`},
	{"or with one operand", `{"name":"R","desc":"d","salience":1,"when":{"or":[{"eq":["F.A",1]}]},"then":["F.B = 1"]}`},
	{"and with zero operands", `{"name":"R","desc":"d","salience":1,"when":{"and":[]},"then":["F.B = 1"]}`},
	{"set with one operand", `{"name":"R","desc":"d","salience":1,"when":"true","then":[{"set":["F.B"]}]}`},
	{"set with three operands", `{"name":"R","desc":"d","salience":1,"when":"true","then":[{"set":["F.B",1,2]}]}`},
	{"call with zero operands", `{"name":"R","desc":"d","salience":1,"when":"true","then":[{"call":[]}]}`},
	{"missing name", `{"desc":"d","salience":1,"when":"true","then":["F.B = 1"]}`},
	{"empty name", `{"name":"","desc":"d","salience":1,"when":"true","then":["F.B = 1"]}`},
	{"missing when", `{"name":"R","desc":"d","salience":1,"then":["F.B = 1"]}`},
	{"missing then", `{"name":"R","desc":"d","salience":1,"when":"true"}`},
	{"empty then", `{"name":"R","desc":"d","salience":1,"when":"true","then":[]}`},
	{"empty input", ``},
	{"blank input", "  \n "},
	{"empty object", `{}`},
	{"two operators in one object", `{"name":"R","desc":"d","salience":1,"when":{"eq":["F.A",1],"lt":["F.A",2]},"then":["F.B = 1"]}`},
	{"operator value not an array", `{"name":"R","desc":"d","salience":1,"when":{"eq":"F.A"},"then":["F.B = 1"]}`},
	{"obj not a string", `{"name":"R","desc":"d","salience":1,"when":{"eq":[{"obj":5},1]},"then":["F.B = 1"]}`},
	{"const of a wrong type", `{"name":"R","desc":"d","salience":1,"when":{"eq":[{"const":[1]},1]},"then":["F.B = 1"]}`},
	{"when of a wrong type", `{"name":"R","desc":"d","salience":1,"when":5,"then":["F.B = 1"]}`},
	{"then item of a wrong type", `{"name":"R","desc":"d","salience":1,"when":"true","then":[5]}`},
	{"and operand not an object", `{"name":"R","desc":"d","salience":1,"when":{"and":["F.T","F.Fl"]},"then":["F.B = 1"]}`},
	{"not json", `rule R "d" { when true then F.B = 1; }`},
	{"truncated json", `{"name":"R","desc":"d","salience":1,"when":"true","then":["F.B = 1"`},
}

func runC18Malformed(c *Ctx, idx int, cr *CaseResult) *CaseResult {
	m := c18Malformed[idx]
	const good = `{"name":"Good","desc":"fine","salience":7,"when":"true","then":["F.B = 1"]}`
	for via := 0; via < 2; via++ {
		// alone, as the only element of a rule set, behind and in front of a well-formed rule
		for form := 0; form < 4; form++ {
			array := form > 0
			data := m.JSON
			isObj := strings.HasPrefix(strings.TrimSpace(data), "{")
			switch {
			case form == 1 && isObj:
				data = "[" + data + "]"
			case form == 2 && isObj:
				data = "[" + good + "," + data + "]"
			case form == 3 && isObj:
				data = "[" + data + "," + good + "]"
			case form > 0:
				continue
			}
			grl, lib, terr, berr, pn := c18Translate(via, []byte(data), array)
			cr.Evals++
			if pn != nil {
				cr.violate(fmt.Sprintf("malformed rule (%s): the translator panicked: %v", m.Name, pn), map[string]interface{}{"json": data})
				return cr
			}
			if terr == nil && berr == nil {
				n := 0
				if lib != nil && lib.GetKnowledgeBase(kbName, kbVer) != nil {
					n = len(lib.GetKnowledgeBase(kbName, kbVer).RuleEntries)
				}
				if m.Name == "empty then" || m.Name == "empty object" || n > 0 || grl != "" {
					cr.violate(fmt.Sprintf("malformed rule (%s) is accepted without error by the translator and the builder (%d rules built)", m.Name, n), map[string]interface{}{"json": data, "grl": grl})
					return cr
				}
				cr.violate(fmt.Sprintf("malformed rule (%s) is accepted without error", m.Name), map[string]interface{}{"json": data, "grl": grl})
				return cr
			}
		}
	}
	cr.NonTrivial = append(cr.NonTrivial, "malformed:"+m.Name)
	cr.set("malformed_kinds_rejected", m.Name)
	return cr
}

func c18Known(c *Ctx) {
	for _, k := range c.OpenFindings() {
		if k.ID != "K3" {
			continue
		}
		data := `{"name":"R","desc":"say \"hi\"","salience":1,"when":"true","then":["F.B = 1"]}`
		_, lib, terr, berr, _ := c18Translate(0, []byte(data), false)
		if terr != nil || berr != nil {
			c.ExtraViolation(fmt.Sprintf("K3 witness is rejected: %v %v", terr, berr), nil)
			continue
		}
		got := lib.GetKnowledgeBase(kbName, kbVer).RuleEntries["R"].RuleDescription
		if got == `say \"hi\"` {
			c.ReportKnown(k)
		} else if got != `say "hi"` {
			c.ExtraViolation(fmt.Sprintf("K3 witness: description arrives as %q", got), nil)
		}
	}
}

func init() {
	register(&Check{
		ID: "C18", Level: "exploration",
		Rule: "typed random operator trees over the 15 operators + set / call / obj / const, depth <=4 (quick) / <=5 (thorough), rendered as JSON with every mix of operand forms (plain string, bare number / boolean, obj / const wrappers, operator objects, n-ary flattening of left spines, one-operand not over operator objects), constants of every kind (strings with quotes, backslashes, control and non-ASCII characters; negative, fractional and large numbers), rule arrays and single rules, via ParseJSONRule(set) and via JSONResource; oracle = the GRL must build, carry name / description / salience, and evaluate (sink into a nil interface field + candidate flag) to the reference value of the tree with operands grouped exactly as nested; a table of malformed rules must be rejected by the translator-plus-builder pipeline through every entry point; non-trivial = distinct trees nesting a lower-precedence operator inside a higher one or carrying a string that needs escapes, plus each malformed kind; optional desc / salience omitted at random; malformed rules alone, as only element of a set, in front of and behind a well-formed rule; constants that print alike but differ in kind (\"7\" / 7, \"true\" / true) in otherwise identical rules; 8 named rule sets last (names that are prefixes of one another in both orders, R12..R1, a name mentioned in an earlier description, extreme / negative saliences, non-ASCII descriptions)",
		Assume: []string{"a one-operand not is logical negation of an operator object (TestJsonNegation); one-operand forms of other operators and of not over obj / plain operands are in neither domain", "plain-string operands are raw GRL text: only atoms are rendered that way", "an integral JSON number denotes an integer"},
		Cases:  func(t string) int { return tierN(2500, 80000)(t) + len(c18Malformed) + len(c18LookAlikes) + len(c18Sets) },
		Run:    runC18Case,
		Known:  c18Known,
	})
}

// c18LookAlikes: T.KindOf(c) and "" + c comparisons for constants whose printed form coincides.
var c18LookAlikes = func() []*Expr {
	var out []*Expr
	for round := 0; round < 3; round++ { // several times: the order in which a process meets them varies
		for _, l := range []*Expr{LitS("7"), LitI(7), LitS("true"), LitB(true), LitS("1.5"), LitF(1.5), LitS("0"), LitI(0), LitS("false"), LitB(false),
			LitS("-3"), LitI(-3), LitS("F.A"), LitS("nil"), LitS(""), LitS(" 7"), LitF(7.5), LitS("7.5")} {
			out = append(out, CallE(tool(), "KindOf", TStr, reflect.String, l))
			out = append(out, Bin("+", TStr, LitS("k"), l))
		}
	}
	return out
}()

// c18Sets: well-formed rule sets whose rule NAMES, descriptions and saliences are related in ways a
// careless header translation trips over (names that are prefixes of one another in either order,
// a name mentioned in an earlier description, many rules, negative and extreme saliences, non-ASCII
// descriptions). Every rule must arrive with exactly its name, description and salience.
type c18SetRule struct {
	Name, Desc string
	Sal        int64
}

var c18Sets = func() [][]c18SetRule {
	var down, up []c18SetRule
	for i := 12; i >= 1; i-- {
		down = append(down, c18SetRule{fmt.Sprintf("R%d", i), fmt.Sprintf("rule number %d", i), int64(i)})
		up = append([]c18SetRule{{fmt.Sprintf("R%d", i), "", int64(-i)}}, up...)
	}
	return [][]c18SetRule{
		{{"SpeedUp", "first", 10}, {"Speed", "second", 5}},
		{{"Speed", "first", 10}, {"SpeedUp", "second", 5}},
		{{"A", "rule B follows, then rule C", 1}, {"B", "rule A came before", 2}, {"C", "", 3}},
		down, up,
		{{"Neg", "negative", -1}, {"Min", "smallest", -2147483648}, {"Max", "largest", 2147483647}, {"Zero", "zero", 0}, {"NegTen", "minus ten", -10}},
		{{"Uml", "prüfen", 1}, {"Cjk", "漢字の説明", 2}, {"Emo", "ok 😀", 3}, {"Acc", "déjà vu", -4}},
		{{"rule1", "name starts with the keyword text", 1}, {"ruler", "so does this one", 2}, {"R", "short", 3}, {"Rule_R", "contains the other", 4}},
	}
}()

func runC18Set(c *Ctx, t int, cr *CaseResult) *CaseResult {
	set := c18Sets[t]
	var rules []interface{}
	for _, ru := range set {
		rules = append(rules, c18Rule(ru.Name, ru.Desc, ru.Sal, "F.A == 1", []interface{}{"F.B = 1"}))
	}
	data, _ := json.Marshal(rules)
	for via := 0; via < 2; via++ {
		grl, lib, terr, berr, pn := c18Translate(via, data, true)
		cr.Evals++
		detail := map[string]interface{}{"json": string(data), "grl": trunc(grl, 1500)}
		if pn != nil || terr != nil || berr != nil {
			cr.violate(fmt.Sprintf("a well-formed rule set of %d rules (%s, ...) is not translated and built: panic=%v translator=%v builder=%v", len(set), set[0].Name, pn, terr, berr), detail)
			return cr
		}
		kb := lib.GetKnowledgeBase(kbName, kbVer)
		for _, ru := range set {
			re, ok := kb.RuleEntries[ru.Name]
			if !ok {
				cr.violate("rule "+ru.Name+" of the JSON rule set is missing from the knowledge base", detail)
				return cr
			}
			if int64(re.Salience) != ru.Sal {
				cr.violate(fmt.Sprintf("rule %s: salience %d, the JSON says %d", ru.Name, re.Salience, ru.Sal), detail)
				return cr
			}
			if re.RuleDescription != ru.Desc {
				cr.violate(fmt.Sprintf("rule %s: description %q, the JSON says %q", ru.Name, re.RuleDescription, ru.Desc), detail)
				return cr
			}
		}
	}
	cr.inc("named_rule_sets")
	cr.NonTrivial = append(cr.NonTrivial, fmt.Sprintf("set|%d", t))
	return cr
}
