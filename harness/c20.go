package main

// C20: no loader crashes, hangs or over-allocates on arbitrary input.
// Parent side: generates random bytes and structure-aware mutants of valid seeds for the four
// loaders, writes every input to disk, runs a sandboxed child per batch and judges the child's
// progress log (panic escaping the API, death of the process, CPU budget, memory obtained from
// the OS).

import (
	"bytes"
	"encoding/binary"
	"encoding/json"
	"fmt"
	"math/rand"
	"os"
	"os/exec"
	"path/filepath"
	"regexp"
	"sort"
	"strings"
	"time"
)

const c20Batch = 200

var c20Loaders = []string{"grl", "jsonrule", "jsonfact", "grb"}

var c20JSONRuleSeeds = []string{
	`[null]`, `[{"name":"R","desc":"d","salience":1,"when":"true","then":["F.A = 1"]},null]`,
	`{"name":"SpeedUp","desc":"When testcar is speeding up we keep increase the speed.","salience":10,"when":"TestCar.SpeedUp == true && TestCar.Speed < TestCar.MaxSpeed","then":["TestCar.Speed = TestCar.Speed + TestCar.SpeedIncrement","DistanceRecord.TotalDistance = DistanceRecord.TotalDistance + TestCar.Speed","Log(\"Speed increased\")"]}`,
	`[{"name":"R","desc":"d","salience":-3,"when":{"and":[{"eq":[{"obj":"F.T"},{"const":true}]},{"lt":["F.A",{"plus":["F.B",1,{"const":2.5}]}]},{"not":[{"or":[{"gte":["F.X",1e21]},{"eq":[{"const":"s\"q"},"F.S1"]}]}]}]},"then":[{"set":["F.A",{"mul":[{"minus":["F.A",1]},2]}]},{"call":["Log",{"const":"x\ny"}]},"Retract(\"R\")"]}]`,
}

var c20JSONFactSeeds = []string{
	`{"age":31,"name":"Bob","ok":true,"obj":{"n":1.5,"s":"x","deep":{"a":[1,2,{"b":null}]}},"arr":[1,2.5,"three",false,null,[],{}]}`,
	`[1,2,3,{"k":"v"},"s",1e308,-0.0,"é😀"]`,
	`"just a string"`, `42`, `null`,
}

var c20Dict = append([]string{"{", "}", "[", "]", ":", ",", "\"", "\\", "\\u00", "null", "true", "1e999", "-", "9223372036854775808", "4294967296", "2147483648", "0x",
	"rule", "when", "then", "salience", "/*", "*/", "//", "((((((((", "))))))))", "[[[[[[[[", "........", "!!!!!!!!", "\x00", "\xff\xfe", "\xef\xbb\xbf",
	`{"and":[`, `{"not":[`, `{"const":`, `{"obj":`, `"name":`, `"when":`, `"then":`}, c17Dict...)

func nested(open, close string, depth int, core string) string {
	return strings.Repeat(open, depth) + core + strings.Repeat(close, depth)
}

// c20Seeds returns valid seeds of a loader (generated programs included).
func c20Seeds(loader string, r *rand.Rand) [][]byte {
	var out [][]byte
	switch loader {
	case "grl":
		for i := 0; i < 4; i++ {
			t, _ := c17BaseDoc(r)
			out = append(out, []byte(t))
		}
		out = append(out, []byte(zooRule))
		// long runs of non-ASCII text (error messages quote them: bytes and runes differ)
		for _, ch := range []string{"漢", "é", "😀"} {
			n := 40 + r.Intn(140)
			out = append(out, []byte(`rule U "`+strings.Repeat(ch, n)+`" { when F.S1 == "`+strings.Repeat(ch, n)+`" then F.S1 = '`+strings.Repeat(ch, n/2)+`'; }`))
		}
		d := 8 + r.Intn(56)
		out = append(out, []byte(`rule N "nested" { when `+nested("(", ")", d, "F.A == 1")+` then F.A = `+nested("(", ")", d, "1")+`; }`))
		out = append(out, []byte(`rule N "chain" { when F`+strings.Repeat(".A", d)+` == 1 then F.A = F.Arr`+strings.Repeat("[0]", d)+`; }`))
		out = append(out, []byte(`rule N "neg" { when `+strings.Repeat("!", d)+`F.T then F.A = `+strings.Repeat("-", 1)+`1; }`))
		out = append(out, []byte(`rule N "callchain" { when T.Get()`+strings.Repeat("[0]", d)+` == 1 then F.A = F.Call(1)`+strings.Repeat(".X()", d/2)+strings.Repeat("[1]", d/2)+`; }`))
	case "jsonrule":
		for _, s := range c20JSONRuleSeeds {
			out = append(out, []byte(s))
		}
		// generated operator trees (the C18 renderer)
		g := &Gen{R: r, Pool: catalogBy(func(v VarSpec) bool { return v.Class != "slice-expr" && v.Class != "map-expr" }), Calls: true, Strs: true}
		for i := 0; i < 3; i++ {
			e := jsonNormalise(g.Expr(TBool, 2+r.Intn(3)))
			if !jsonExpressible(e) || !(isBinOp(e.Op) || e.Op == "call" || e.Op == "not") {
				continue
			}
			jr := &jsonRender{r: r, forms: map[string]int{}}
			rule := c18Rule("G", "generated", int64(r.Intn(9)), jr.object(e), []interface{}{map[string]interface{}{"set": []interface{}{"F.A", 1.0}}})
			if b, err := json.Marshal([]interface{}{rule}); err == nil {
				out = append(out, b)
			}
		}
		d := 4 + r.Intn(60)
		out = append(out, []byte(`{"name":"R","desc":"d","salience":1,"when":`+nested(`{"not":[`, `]}`, d, `{"eq":["F.A",1]}`)+`,"then":["F.A = 1"]}`))
		out = append(out, []byte(`{"name":"R","desc":"d","salience":1,"when":`+nested(`{"and":[{"const":true},`, `]}`, d, `{"eq":["F.A",1]}`)+`,"then":["F.A = 1"]}`))
	case "jsonfact":
		for _, s := range c20JSONFactSeeds {
			out = append(out, []byte(s))
		}
		d := 8 + r.Intn(2000)
		out = append(out, []byte(nested("[", "]", d, "1")))
		out = append(out, []byte(nested(`{"a":`, "}", d, "1")))
	case "grb":
		for i := 0; i < 3; i++ {
			t, _ := c17BaseDoc(r)
			if lib, err := BuildLib(t); err == nil {
				w := &recWriter{}
				if lib.StoreKnowledgeBaseToWriter(w, kbName, kbVer) == nil {
					out = append(out, w.buf.Bytes())
				}
			}
		}
	}
	return out
}

// grbFieldOffsets finds the offsets of 8-byte fields of a stored stream by re-storing it through
// the recording writer: returns the offsets of all 8-byte writes.
func grbFieldOffsets(t string) ([]byte, []int) {
	lib, err := BuildLib(t)
	if err != nil {
		return nil, nil
	}
	w := &recWriter{}
	if lib.StoreKnowledgeBaseToWriter(w, kbName, kbVer) != nil {
		return nil, nil
	}
	var offs []int
	off := 0
	for _, s := range w.sizes {
		if s == 8 {
			offs = append(offs, off)
		}
		off += s
	}
	return w.buf.Bytes(), offs
}

// jsonStructMutate replaces / removes / duplicates one node of a JSON document (valid JSON out).
func jsonStructMutate(r *rand.Rand, seed []byte) ([]byte, bool) {
	var doc interface{}
	if json.Unmarshal(seed, &doc) != nil {
		return nil, false
	}
	repl := func() interface{} {
		return []interface{}{nil, nil, []interface{}{}, map[string]interface{}{}, 0.0, -1.0, 1e308, "", "x", true, []interface{}{nil}, map[string]interface{}{"and": nil}}[r.Intn(12)]
	}
	// collect slots
	type slot struct {
		m map[string]interface{}
		k string
		a []interface{}
		i int
	}
	var slots []slot
	var walk func(v interface{})
	walk = func(v interface{}) {
		switch t := v.(type) {
		case map[string]interface{}:
			keys := make([]string, 0, len(t))
			for k := range t {
				keys = append(keys, k)
			}
			sort.Strings(keys) // deterministic slot order (replays regenerate the inputs)
			for _, k := range keys {
				slots = append(slots, slot{m: t, k: k})
				walk(t[k])
			}
		case []interface{}:
			for i, c := range t {
				slots = append(slots, slot{a: t, i: i})
				walk(c)
			}
		}
	}
	walk(doc)
	if len(slots) == 0 || r.Intn(8) == 0 {
		doc = repl()
	} else {
		sl := slots[r.Intn(len(slots))]
		if sl.m != nil {
			switch r.Intn(3) {
			case 0:
				delete(sl.m, sl.k)
			default:
				sl.m[sl.k] = repl()
			}
		} else {
			sl.a[sl.i] = repl()
		}
	}
	if arr, ok := doc.([]interface{}); ok && r.Intn(3) == 0 {
		doc = append(arr, repl())
	}
	b, err := json.Marshal(doc)
	return b, err == nil
}

func c20Mutate(r *rand.Rand, seed []byte, maxLen int, other []byte) []byte {
	if len(seed) > 0 && (seed[0] == '{' || seed[0] == '[') && r.Intn(3) == 0 {
		if b, ok := jsonStructMutate(r, seed); ok {
			if len(b) > maxLen {
				b = b[:maxLen]
			}
			return b
		}
	}
	b := append([]byte(nil), seed...)
	n := 1 + r.Intn(4)
	for e := 0; e < n && len(b) > 0; e++ {
		i := r.Intn(len(b))
		switch r.Intn(8) {
		case 0:
			b[i] ^= 1 << uint(r.Intn(8))
		case 1:
			b[i] = byte(r.Intn(256))
		case 2:
			b = b[:i]
		case 3:
			if len(other) > 0 {
				j := r.Intn(len(other))
				b = append(append(append([]byte(nil), b[:i]...), other[j:]...), b[i:]...)
			}
		case 4:
			ins := c20Dict[r.Intn(len(c20Dict))]
			b = append(append(append([]byte(nil), b[:i]...), ins...), b[i:]...)
		case 5:
			k := i + 1 + r.Intn(16)
			if k > len(b) {
				k = len(b)
			}
			b = append(b[:i], b[k:]...)
		case 6:
			k := i + 1 + r.Intn(64)
			if k > len(b) {
				k = len(b)
			}
			b = append(append(append([]byte(nil), b[:k]...), b[i:k]...), b[k:]...)
		default:
			num := []string{"0", "-1", "255", "256", "65535", "65536", "2147483647", "2147483648", "4294967295", "4294967296", "9223372036854775807", "9223372036854775808", "18446744073709551615", "18446744073709551616", "1e308", "1e309", "5e-324", "0.1e-400"}[r.Intn(18)]
			b = append(append(append([]byte(nil), b[:i]...), num...), b[i:]...)
		}
	}
	if len(b) > maxLen {
		b = b[:maxLen]
	}
	return b
}

var grbLengths = []uint64{0, 1, 2, 1 << 16, 1<<16 + 1, 1 << 20, 1 << 31, 1 << 32, 1 << 40, 1 << 62, 1 << 63, 1<<64 - 1}

var astIDRe = regexp.MustCompile(`[0-9a-f]{8}-[0-9a-f]{4}-[0-9a-f]{4}-[0-9a-f]{4}-[0-9a-f]{12}`)

// grbSpliceIDs overwrites 1-3 node ids of a stored stream with other ids of the same stream
// (references to the node itself, to an ancestor, to a node of another type, duplicate ids).
func grbSpliceIDs(r *rand.Rand, stream []byte) []byte {
	b := append([]byte(nil), stream...)
	locs := astIDRe.FindAllIndex(b, -1)
	if len(locs) < 2 {
		return b
	}
	if r.Intn(10) < 7 {
		// a node's own id is written in front of the ids it refers to: copy an id over one of
		// the next three (self reference), nothing else changes
		k := r.Intn(len(locs) - 1)
		i, j := locs[min(len(locs)-1, k+1+r.Intn(3))], locs[k]
		copy(b[i[0]:i[1]], stream[j[0]:j[1]])
		return b
	}
	for e := 1 + r.Intn(3); e > 0; e-- {
		i, j := locs[r.Intn(len(locs))], locs[r.Intn(len(locs))]
		copy(b[i[0]:i[1]], stream[j[0]:j[1]])
	}
	return b
}

// c20EdgeInputs: encodings and emptiness around a valid text (byte order marks, blank input,
// NUL bytes), the classic ways a text file reaches a loader in an unexpected shape.
func c20EdgeInputs(seed []byte) [][]byte {
	bom := "\xef\xbb\xbf"
	var out [][]byte
	for _, s := range []string{"", " ", "\n", "\r\n\t ", bom, bom + "\n", bom + "\r\n", " " + bom, "\n" + bom + "\n\t", bom + bom, bom + " " + bom,
		"\xff\xfe", "\xfe\xff", "\xff\xfe\x00\x00", "\x00", "\x00\x00\x00", bom + "x", bom + "{", bom + "[", bom + "[]", bom + "{}", bom + "\"", "\xef\xbb", "\xef"} {
		out = append(out, []byte(s))
	}
	out = append(out, append([]byte(bom), seed...), append(append([]byte(nil), seed...), bom...), append([]byte(bom+"\n "), seed...))
	for _, k := range []int{1, 2, 3, 4, 5, 8} {
		if k < len(seed) {
			out = append(out, append([]byte(bom), seed[:k]...))
		}
	}
	return out
}

// grlChunk selects which tenth of the targeted documents a GRL case feeds.
func c20Inputs(loader string, r *rand.Rand, n int, grlChunk int) [][]byte {
	maxLen := 4096
	if loader == "jsonfact" || loader == "grb" {
		maxLen = 65536
	}
	seeds := c20Seeds(loader, r)
	var out [][]byte
	if loader != "grb" && len(seeds) > 0 {
		out = append(out, c20EdgeInputs(seeds[r.Intn(len(seeds))])...)
	}
	if loader == "jsonrule" {
		// operator objects with three operands nested in their own middle operand: whatever the
		// translator emits must stay proportional to the input
		for _, depth := range []int{18, 24, 30} {
			op := []string{"lt", "eq", "plus"}[r.Intn(3)]
			inner := `"F.A"`
			for i := 0; i < depth; i++ {
				inner = `{"` + op + `":["F.A",` + inner + `,"F.B"]}`
			}
			out = append(out, []byte(`{"name":"N","desc":"nested","salience":1,"when":{"eq":[`+inner+`,1]},"then":["F.A = 1"]}`))
		}
	}
	if loader == "grl" {
		// the targeted documents of the acceptance check (empty scopes, unbalanced brackets, cut-off
		// rules, boundary literals, every escape class): 25 verbatim, and all of them as seeds
		for i := 0; i < 25; i++ {
			_ = r.Intn(len(c17Targeted)) // (kept: the draws that follow stay what they were)
		}
		// every tenth targeted document, a different tenth per case: ten GRL cases cover them all
		for i := range c17Targeted {
			if i%10 == grlChunk%10 {
				out = append(out, []byte(c17Targeted[i]))
			}
		}
		for i := 0; i < 6; i++ {
			seeds = append(seeds, []byte(c17Targeted[r.Intn(len(c17Targeted))]))
		}
	}
	// GRB: edits of 8-byte length / count fields
	var grbStream []byte
	var grbOffs []int
	if loader == "grb" {
		t, _ := c17BaseDoc(r)
		grbStream, grbOffs = grbFieldOffsets(t)
	}
	for len(out) < n {
		switch k := r.Intn(10); {
		case k == 0:
			l := r.Intn(maxLen/8 + 1)
			b := make([]byte, l)
			r.Read(b)
			out = append(out, b)
		case k == 1 && len(seeds) > 0:
			out = append(out, seeds[r.Intn(len(seeds))]) // valid seed as is
		case k >= 8 && loader == "grb" && len(grbStream) > 0 && len(grbStream) <= maxLen:
			out = append(out, grbSpliceIDs(r, grbStream))
		case k <= 4 && loader == "grb" && len(grbOffs) > 0 && len(grbStream) <= maxLen:
			b := append([]byte(nil), grbStream...)
			off := grbOffs[r.Intn(len(grbOffs))]
			if r.Intn(2) == 0 {
				// the header fields (name / version lengths, node count) and the counts of the
				// working-memory tables sit at the beginning and at the end of the stream
				k := r.Intn(min(12, len(grbOffs)))
				if r.Intn(3) == 0 {
					k = len(grbOffs) - 1 - r.Intn(min(40, len(grbOffs)))
				}
				off = grbOffs[k]
			}
			cur := binary.LittleEndian.Uint64(b[off:])
			v := grbLengths[r.Intn(len(grbLengths))]
			switch r.Intn(4) {
			case 0:
				v = cur + 1
			case 1:
				if cur > 0 {
					v = cur - 1
				}
			}
			binary.LittleEndian.PutUint64(b[off:], v)
			out = append(out, b)
		default:
			if len(seeds) == 0 {
				continue
			}
			s := seeds[r.Intn(len(seeds))]
			if len(s) > maxLen {
				continue
			}
			out = append(out, c20Mutate(r, s, maxLen, seeds[r.Intn(len(seeds))]))
		}
	}
	return out
}

// pastFirstCheck: did the input get past the loader's first syntactic check (parse at least one
// token / one field)?
func pastFirstCheck(loader string, b []byte) bool {
	switch loader {
	case "grl":
		toks, _ := Lex(b[:min(len(b), 512)])
		return len(toks) > 0
	case "jsonrule", "jsonfact":
		t := bytes.TrimSpace(b)
		if len(t) == 0 {
			return false
		}
		if loader == "jsonfact" {
			var x interface{}
			return json.Unmarshal(t[:1], &x) == nil || strings.ContainsRune(`{["-tfn`, rune(t[0]))
		}
		return t[0] == '{' || t[0] == '['
	default:
		return len(b) >= 16
	}
}

func c20WorkDir() string {
	d := filepath.Join(verifDir(), "bin", "c20work")
	os.MkdirAll(d, 0o755)
	return d
}

func runC20Case(c *Ctx, idx int) *CaseResult {
	cr := &CaseResult{}
	loader := c20Loaders[idx%len(c20Loaders)]
	r := c.Rng(idx, 0)
	inputs := c20Inputs(loader, r, c20Batch, idx/len(c20Loaders))
	dir, err := os.MkdirTemp(c20WorkDir(), fmt.Sprintf("%s.%d.", loader, idx))
	if err != nil {
		cr.inconclusive("cannot create work directory")
		return cr
	}
	defer os.RemoveAll(dir)
	for i, in := range inputs {
		if err := os.WriteFile(filepath.Join(dir, fmt.Sprintf("%d.in", i)), in, 0o644); err != nil {
			cr.inconclusive("cannot write input")
			return cr
		}
	}
	start := 0
	for attempt := 0; attempt < 6 && start < len(inputs); attempt++ {
		// (re)start the child after a death, skipping the input that killed it
		os.Remove(filepath.Join(dir, "progress"))
		if start > 0 {
			for i := 0; i < start; i++ {
				os.Remove(filepath.Join(dir, fmt.Sprintf("%d.in", i)))
			}
		}
		cmd := exec.Command(os.Args[0], "child", loader, dir, fmt.Sprint(len(inputs)), fmt.Sprint(uint64(4)<<30))
		var stderr bytes.Buffer
		cmd.Stderr = &stderr
		cmd.Stdout = &stderr
		done := make(chan error, 1)
		if err := cmd.Start(); err != nil {
			cr.inconclusive("cannot start the child process")
			return cr
		}
		go func() { done <- cmd.Wait() }()
		var werr error
		select {
		case werr = <-done:
		case <-time.After(15 * time.Minute):
			cmd.Process.Kill()
			<-done
			cr.inconclusive("wall-clock watchdog fired for a child batch")
			return cr
		}
		pb, _ := os.ReadFile(filepath.Join(dir, "progress"))
		begun, ended := -1, -1
		for _, line := range strings.Split(string(pb), "\n") {
			f := strings.Fields(line)
			if len(f) < 2 {
				continue
			}
			var i int
			fmt.Sscan(f[1], &i)
			switch f[0] {
			case "BEGIN":
				begun = i
			case "CPUEXCEEDED":
				cr.violate(fmt.Sprintf("%s loader: input %d (%d bytes) used more CPU time than T(n) = %.1fs (possible loop / super-quadratic blow-up)", loader, i, len(inputs[i]), float64(cpuBudgetNs(len(inputs[i])))/1e9), c20Detail(c, loader, idx, i, inputs[i], ""))
			case "END":
				ended = i
				cr.Evals++
				var cpu, mem int64
				fmt.Sscan(f[2], &cpu)
				fmt.Sscan(f[3], &mem)
				outcome := strings.Join(f[4:], " ")
				if cpu > cr.maxCounter("max_cpu_ms_"+loader)*1e6 {
					cr.setCounter("max_cpu_ms_"+loader, int(cpu/1e6))
				}
				if mem > int64(cr.maxCounter("max_sys_growth_kib_"+loader))*1024 {
					cr.setCounter("max_sys_growth_kib_"+loader, int(mem/1024))
				}
				cr.inc("outcome_" + loader + "_" + strings.Fields(outcome + " x")[0])
				if strings.HasPrefix(outcome, "PANIC") {
					cr.violate(fmt.Sprintf("%s loader: a panic escaped the API on input %d (%d bytes): %s", loader, i, len(inputs[i]), trunc(outcome, 200)), c20Detail(c, loader, idx, i, inputs[i], outcome))
				}
				if mem > memBudget(len(inputs[i])) {
					cr.violate(fmt.Sprintf("%s loader: input %d (%d bytes) made the process obtain %d MiB from the OS (budget M(n) = %d MiB)", loader, i, len(inputs[i]), mem>>20, memBudget(len(inputs[i]))>>20), c20Detail(c, loader, idx, i, inputs[i], ""))
				}
				if pastFirstCheck(loader, inputs[i]) {
					cr.NonTrivial = append(cr.NonTrivial, hashStr(loader+string(inputs[i])))
					cr.inc("past_first_check_" + loader)
				}
			}
		}
		if werr == nil && ended >= len(inputs)-1 {
			break
		}
		if begun > ended && begun >= 0 {
			code := -1
			if cmd.ProcessState != nil {
				code = cmd.ProcessState.ExitCode()
			}
			if code != 3 {
				cr.violate(fmt.Sprintf("%s loader: the process died (exit %d) while loading input %d (%d bytes): %s", loader, code, begun, len(inputs[begun]), trunc(lastLines(stderr.String(), 3), 300)), c20Detail(c, loader, idx, begun, inputs[begun], stderr.String()))
			}
			start = begun + 1
			continue
		}
		if werr != nil {
			cr.inconclusive("child ended abnormally outside any input: " + trunc(lastLines(stderr.String(), 2), 80))
		}
		break
	}
	if cr.Sample == nil && idx < 8 {
		s := inputs[len(inputs)/2]
		cr.Sample = map[string]interface{}{"loader": loader, "batch_inputs": len(inputs), "one_input": trunc(fmt.Sprintf("%q", s), 300)}
	}
	return cr
}

func lastLines(s string, n int) string {
	l := strings.Split(strings.TrimSpace(s), "\n")
	// the first lines of a Go fatal error are the informative ones
	for i, x := range l {
		if strings.HasPrefix(x, "fatal error") || strings.HasPrefix(x, "runtime:") || strings.HasPrefix(x, "panic:") {
			if i+n < len(l) {
				return strings.Join(l[i:i+n], " | ")
			}
			return strings.Join(l[i:], " | ")
		}
	}
	if len(l) > n {
		l = l[len(l)-n:]
	}
	return strings.Join(l, " | ")
}

func c20Detail(c *Ctx, loader string, idx, i int, in []byte, extra string) map[string]interface{} {
	dir := filepath.Join(verifDir(), "replays", "C20")
	if d := os.Getenv("VERIF_REPLAY_DIR"); d != "" {
		dir = filepath.Join(d, "C20")
	}
	os.MkdirAll(dir, 0o755)
	p := filepath.Join(dir, fmt.Sprintf("input_seed%d_case%d_%d.%s", c.Seed, idx, i, loader))
	os.WriteFile(p, in, 0o644)
	return map[string]interface{}{"loader": loader, "input_file": p, "input_head": trunc(fmt.Sprintf("%q", in), 400), "extra": trunc(extra, 1500)}
}

func (c *CaseResult) maxCounter(k string) int64 {
	if c.Counters == nil {
		return 0
	}
	return int64(c.Counters[k])
}

func (c *CaseResult) setCounter(k string, v int) {
	if c.Counters == nil {
		c.Counters = map[string]int{}
	}
	c.Counters[k] = v
}

func init() {
	register(&Check{
		ID: "C20", Level: "exploration",
		Rule: "four loaders (BuildRuleFromResource, JSONResource.Load + builder, DataContext.AddJSON, LoadKnowledgeBaseFromReader), batches of 200 inputs per sandboxed child process (RLIMIT_AS 4 GiB, BEGIN/END progress log, in-child CPU watchdog): random bytes, valid seeds, and structure-aware mutants of valid GRL / JSON-rule / JSON-fact / GRB seeds (bit flips, byte edits, truncation, splicing, duplication, dictionary tokens, boundary numbers, structure-aware JSON node replacement (null, empty containers, wrong kinds), deep nesting up to 64 levels for rules and 2000 for JSON facts; for GRB every kind of edit of the 8-byte length / count fields to 0, 1, len+-1, 2^16, 2^20, 2^31, 2^32, 2^40, 2^62, 2^63, 2^64-1); size bound 4 KiB (GRL, JSON rules) / 64 KiB (JSON facts, GRB); verdicts: panic escaping the API, death of the process, CPU time above T(n) = 30 s + 2 us * n^2, memory obtained from the OS above M(n) = 512 MiB + 256 * n; non-trivial = distinct inputs that get past the loader's first syntactic check; encoding / emptiness edge inputs per text loader (byte order marks alone, with blanks, around valid texts and their prefixes, UTF-16 marks, NULs); GRB id splices (a node id copied over one of the next three ids = self reference, or over a random other one); the targeted documents of C17 verbatim and as seeds; three-operand JSON operator objects nested 18-30 times in their own middle operand; GRL seeds with long runs of non-ASCII text; every targeted document of C17 once per ten GRL cases",
		Assume: []string{"budgets T(n), M(n) are fixed (>=10x the worst case measured on the unchanged tree, recorded as max_cpu_ms_* / max_sys_growth_kib_* in the evidence)", "wall-clock watchdog (15 min per batch) only yields inconclusive"},
		Cases:  tierN(40, 4000),
		Run:    runC20Case,
		Finish: func(c *Ctx, ev *Evidence) {
			// counters named max_* were summed by the driver; they are per-case maxima: recompute as is
		},
	})
}
