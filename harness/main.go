package main

import (
	"fmt"
	"os"
	"sort"
	"strconv"
)

var checks = map[string]*Check{}

func register(c *Check) { checks[c.ID] = c }

func main() {
	if len(os.Args) < 2 {
		usage()
	}
	id := os.Args[1]
	if id == "list" {
		var ids []string
		for k := range checks {
			ids = append(ids, k)
		}
		sort.Strings(ids)
		for _, k := range ids {
			fmt.Println(k)
		}
		return
	}
	if id == "child" {
		os.Exit(childMain(os.Args[2:]))
	}
	chk, ok := checks[id]
	if !ok {
		fmt.Fprintf(os.Stderr, "unknown check %q\n", id)
		os.Exit(2)
	}
	tier := "quick"
	replay := ""
	n := 0
	args := os.Args[2:]
	for i := 0; i < len(args); i++ {
		switch args[i] {
		case "quick", "thorough":
			tier = args[i]
		case "--replay":
			if i+1 < len(args) {
				replay = args[i+1]
				i++
			}
		case "--n":
			if i+1 < len(args) {
				n, _ = strconv.Atoi(args[i+1])
				i++
			}
		}
	}
	if t := os.Getenv("VERIF_TIER"); t == "quick" || t == "thorough" {
		if len(os.Args) < 3 || (os.Args[2] != "quick" && os.Args[2] != "thorough") {
			tier = t
		}
	}
	seed := int64(1)
	if s := os.Getenv("VERIF_SEED"); s != "" {
		if v, err := strconv.ParseInt(s, 10, 64); err == nil {
			seed = v
		}
	}
	os.Exit(RunCheck(chk, tier, seed, replay, n))
}

func usage() {
	fmt.Fprintln(os.Stderr, "usage: vcheck <property-id> [quick|thorough] [--replay <path>] [--n <cases>]")
	os.Exit(2)
}
