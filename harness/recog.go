package main

// Independent recogniser for C17: a lexer transcribed from the token rules of grulev3.g4 with ANTLR's
// semantics, a generic Earley recogniser over the parser rules transcribed as data, and literal /
// name validity written from the documentation. Shares no code with the engine's parser.

import (
	"math"
	"regexp"
	"strconv"
	"strings"
	"unicode/utf8"
)

// ---------- lexer transcribed from grulev3.g4 (ANTLR semantics: longest match, ties -> earlier rule) ----------

const isc = `A-Za-z\x{C0}-\x{D6}\x{D8}-\x{F6}\x{F8}-\x{2FF}\x{370}-\x{37D}\x{37F}-\x{1FFF}\x{200C}-\x{200D}\x{2070}-\x{218F}\x{2C00}-\x{2FEF}\x{3001}-\x{D7FF}\x{F900}-\x{FDCF}\x{FDF0}-\x{FFFD}`
const ic = isc + `0-9_\x{B7}\x{300}-\x{36F}\x{203F}-\x{2040}`
const decLit = `(?:0|[1-9][0-9]*)`
const decExp = `[eE][+-]?[0-9]+`
const hexExp = `[pP][+-]?[0-9]+`

type tokRule struct {
	name string
	re   *regexp.Regexp
	skip bool
	lazy bool
}

func recogCI(w string) string {
	var sb strings.Builder
	for _, c := range w {
		sb.WriteString("[" + strings.ToLower(string(c)) + strings.ToUpper(string(c)) + "]")
	}
	return sb.String()
}

var lexRules []tokRule

func lexRule(name, re string, opts ...string) {
	r := tokRule{name: name}
	for _, o := range opts {
		if o == "skip" {
			r.skip = true
		}
		if o == "lazy" {
			r.lazy = true
		}
	}
	rx := regexp.MustCompile(`^(?s:` + re + `)`)
	if !r.lazy {
		rx.Longest()
	}
	r.re = rx
	lexRules = append(lexRules, r)
}

func init() {
	lexRule("COMMA", `,`)
	lexRule("PLUS", `\+`)
	lexRule("MINUS", `-`)
	lexRule("DIV", `/`)
	lexRule("MUL", `\*`)
	lexRule("MOD", `%`)
	lexRule("DOT", `\.`)
	lexRule("SEMICOLON", `;`)
	lexRule("LR_BRACE", `\{`)
	lexRule("RR_BRACE", `\}`)
	lexRule("LR_BRACKET", `\(`)
	lexRule("RR_BRACKET", `\)`)
	lexRule("LS_BRACKET", `\[`)
	lexRule("RS_BRACKET", `\]`)
	lexRule("RULE", recogCI("rule"))
	lexRule("WHEN", recogCI("when"))
	lexRule("THEN", recogCI("then"))
	lexRule("AND", `&&`)
	lexRule("OR", `\|\|`)
	lexRule("TRUE", recogCI("true"))
	lexRule("FALSE", recogCI("false"))
	lexRule("NIL_LITERAL", recogCI("nil"))
	lexRule("NEGATION", `!`)
	lexRule("SALIENCE", recogCI("salience"))
	lexRule("EQUALS", `==`)
	lexRule("ASSIGN", `=`)
	lexRule("PLUS_ASIGN", `\+=`)
	lexRule("MINUS_ASIGN", `-=`)
	lexRule("DIV_ASIGN", `/=`)
	lexRule("MUL_ASIGN", `\*=`)
	lexRule("GT", `>`)
	lexRule("LT", `<`)
	lexRule("GTE", `>=`)
	lexRule("LTE", `<=`)
	lexRule("NOTEQUALS", `!=`)
	lexRule("BITAND", `&`)
	lexRule("BITOR", `\|`)
	lexRule("SIMPLENAME", `[`+isc+`][`+ic+`]*`)
	lexRule("DQUOTA_STRING", `"(?:\\.|""|[^"\\])*"`)
	lexRule("SQUOTA_STRING", `'(?:\\.|''|[^'\\])*'`)
	lexRule("DECIMAL_FLOAT_LIT", decLit+`\.[0-9]+(?:`+decExp+`)?|`+decLit+decExp+`|\.[0-9]+(?:`+decExp+`)?`)
	lexRule("DECIMAL_EXPONENT", decExp)
	lexRule("HEX_FLOAT_LIT", `0[xX](?:[0-9a-fA-F]+\.[0-9a-fA-F]*|[0-9a-fA-F]+|\.[0-9a-fA-F]+)`+hexExp)
	lexRule("HEX_EXPONENT", hexExp)
	lexRule("DEC_LIT", decLit)
	lexRule("HEX_LIT", `0[xX][0-9a-fA-F]+`)
	lexRule("OCT_LIT", `0[0-7]+`)
	lexRule("SPACE", `[ \t\r\n]+`, "skip")
	lexRule("COMMENT", `/\*.*?\*/`, "skip", "lazy")
	lexRule("LINE_COMMENT", `//[^\r\n]*`, "skip")
}

type Tok struct {
	Kind, Text string
}

// Lex returns tokens and ok=false if any character cannot start a token.
func Lex(data []byte) ([]Tok, bool) {
	s := string([]rune(string(data))) // ANTLR input stream is []rune: invalid bytes -> U+FFFD
	var out []Tok
	ok := true
	for len(s) > 0 {
		best, bestLen := -1, 0
		for i, r := range lexRules {
			loc := r.re.FindStringIndex(s)
			if loc != nil && loc[1] > bestLen {
				best, bestLen = i, loc[1]
			}
		}
		if best < 0 {
			ok = false
			_, sz := utf8.DecodeRuneInString(s)
			s = s[sz:]
			continue
		}
		if !lexRules[best].skip {
			out = append(out, Tok{lexRules[best].name, s[:bestLen]})
		}
		s = s[bestLen:]
	}
	return out, ok
}

// ---------- recogGrammar as data + Earley recogniser ----------

type prod struct {
	lhs string
	rhs []string
}

var recogGrammar []prod
var nonterm = map[string]bool{}

func gram(lhs string, alts ...string) {
	nonterm[lhs] = true
	for _, a := range alts {
		recogGrammar = append(recogGrammar, prod{lhs, strings.Fields(a)})
	}
}

func init() {
	gram("grl", "ruleEntries")
	gram("ruleEntries", "", "ruleEntries ruleEntry")
	gram("ruleEntry", "RULE ruleName optDesc optSal LR_BRACE whenScope thenScope RR_BRACE")
	gram("optDesc", "", "ruleDescription")
	gram("optSal", "", "salience")
	gram("salience", "SALIENCE integerLiteral")
	gram("ruleName", "SIMPLENAME")
	gram("ruleDescription", "DQUOTA_STRING", "SQUOTA_STRING")
	gram("whenScope", "WHEN expression")
	gram("thenScope", "THEN thenExpressionList")
	gram("thenExpressionList", "thenExpression SEMICOLON", "thenExpressionList thenExpression SEMICOLON")
	gram("thenExpression", "assignment", "expressionAtom")
	gram("assignment", "variable assignOp expression")
	gram("assignOp", "ASSIGN", "PLUS_ASIGN", "MINUS_ASIGN", "DIV_ASIGN", "MUL_ASIGN")
	gram("expression", "expression mulDiv expression", "expression addMinus expression", "expression cmp expression", "expression AND expression", "expression OR expression",
		"LR_BRACKET expression RR_BRACKET", "NEGATION LR_BRACKET expression RR_BRACKET", "expressionAtom")
	gram("mulDiv", "MUL", "DIV", "MOD")
	gram("addMinus", "PLUS", "MINUS", "BITAND", "BITOR")
	gram("cmp", "GT", "LT", "GTE", "LTE", "EQUALS", "NOTEQUALS")
	gram("expressionAtom", "constant", "variable", "functionCall", "expressionAtom methodCall", "expressionAtom memberVariable", "expressionAtom arrayMapSelector", "NEGATION expressionAtom")
	gram("constant", "stringLiteral", "integerLiteral", "floatLiteral", "booleanLiteral", "NIL_LITERAL")
	gram("variable", "variable memberVariable", "variable arrayMapSelector", "SIMPLENAME")
	gram("arrayMapSelector", "LS_BRACKET expression RS_BRACKET")
	gram("memberVariable", "DOT SIMPLENAME")
	gram("functionCall", "SIMPLENAME LR_BRACKET RR_BRACKET", "SIMPLENAME LR_BRACKET argumentList RR_BRACKET")
	gram("methodCall", "DOT functionCall")
	gram("argumentList", "expression", "argumentList COMMA expression")
	gram("floatLiteral", "DECIMAL_FLOAT_LIT", "MINUS DECIMAL_FLOAT_LIT", "HEX_FLOAT_LIT", "MINUS HEX_FLOAT_LIT")
	gram("integerLiteral", "DEC_LIT", "MINUS DEC_LIT", "HEX_LIT", "MINUS HEX_LIT", "OCT_LIT", "MINUS OCT_LIT")
	gram("stringLiteral", "DQUOTA_STRING", "SQUOTA_STRING")
	gram("booleanLiteral", "TRUE", "FALSE")
}

type earleyItem struct{ p, dot, start int }

func Member(toks []Tok) bool {
	n := len(toks)
	sets := make([]map[earleyItem]bool, n+1)
	order := make([][]earleyItem, n+1)
	for i := range sets {
		sets[i] = map[earleyItem]bool{}
	}
	addItem := func(k int, it earleyItem) {
		if !sets[k][it] {
			sets[k][it] = true
			order[k] = append(order[k], it)
		}
	}
	byLhs := map[string][]int{}
	for i, p := range recogGrammar {
		byLhs[p.lhs] = append(byLhs[p.lhs], i)
	}
	for _, pi := range byLhs["grl"] {
		addItem(0, earleyItem{pi, 0, 0})
	}
	for k := 0; k <= n; k++ {
		for idx := 0; idx < len(order[k]); idx++ {
			it := order[k][idx]
			pr := recogGrammar[it.p]
			if it.dot < len(pr.rhs) {
				sym := pr.rhs[it.dot]
				if nonterm[sym] {
					for _, pi := range byLhs[sym] {
						addItem(k, earleyItem{pi, 0, k})
						// nullable completion
						if len(recogGrammar[pi].rhs) == 0 {
							addItem(k, earleyItem{it.p, it.dot + 1, it.start})
						}
					}
				} else if k < n && toks[k].Kind == sym {
					addItem(k+1, earleyItem{it.p, it.dot + 1, it.start})
				}
			} else {
				for _, o := range order[it.start] {
					op := recogGrammar[o.p]
					if o.dot < len(op.rhs) && op.rhs[o.dot] == pr.lhs {
						addItem(k, earleyItem{o.p, o.dot + 1, o.start})
					}
				}
			}
		}
	}
	for it := range sets[n] {
		if recogGrammar[it.p].lhs == "grl" && it.dot == len(recogGrammar[it.p].rhs) && it.start == 0 {
			return true
		}
	}
	return false
}

// ---------- literal validity + names ----------

func endsExpr(k string) bool {
	switch k {
	case "RR_BRACKET", "RS_BRACKET", "SIMPLENAME", "DQUOTA_STRING", "SQUOTA_STRING", "DECIMAL_FLOAT_LIT", "HEX_FLOAT_LIT", "DEC_LIT", "HEX_LIT", "OCT_LIT", "TRUE", "FALSE", "NIL_LITERAL":
		return true
	}
	return false
}

func validEscapes(tok string) bool {
	q := tok[0]
	s := tok[1 : len(tok)-1]
	for len(s) > 0 {
		c := s[0]
		if c == q {
			return false
		}
		if c != '\\' {
			_, sz := utf8.DecodeRuneInString(s)
			s = s[sz:]
			continue
		}
		if len(s) < 2 {
			return false
		}
		e := s[1]
		s = s[2:]
		hex := func(n int) (uint32, bool) {
			if len(s) < n {
				return 0, false
			}
			v, err := strconv.ParseUint(s[:n], 16, 32)
			if err != nil {
				return 0, false
			}
			for _, ch := range s[:n] {
				if !strings.ContainsRune("0123456789abcdefABCDEF", ch) {
					return 0, false
				}
			}
			s = s[n:]
			return uint32(v), true
		}
		switch e {
		case 'a', 'b', 'f', 'n', 'r', 't', 'v', '\\':
		case '\'', '"':
			if e != q {
				return false
			}
		case 'x':
			if _, ok := hex(2); !ok {
				return false
			}
		case 'u':
			v, ok := hex(4)
			if !ok || (v >= 0xD800 && v < 0xE000) {
				return false
			}
		case 'U':
			v, ok := hex(8)
			if !ok || v > 0x10FFFF || (v >= 0xD800 && v < 0xE000) {
				return false
			}
		case '0', '1', '2', '3', '4', '5', '6', '7':
			if len(s) < 2 || s[0] < '0' || s[0] > '7' || s[1] < '0' || s[1] > '7' {
				return false
			}
			v := int(e-'0')*64 + int(s[0]-'0')*8 + int(s[1]-'0')
			if v > 255 {
				return false
			}
			s = s[2:]
		default:
			return false
		}
	}
	return true
}

// Accept decides whether a GRL text should be accepted when loaded into a KB already holding names in `have`.
// returns (accept, reason)
func Accept(data []byte, have map[string]bool) (bool, string) {
	toks, ok := Lex(data)
	if !ok {
		return false, "lex"
	}
	if !Member(toks) {
		return false, "syntax"
	}
	names := map[string]bool{}
	for i, t := range toks {
		switch t.Kind {
		case "RULE":
			nm := toks[i+1].Text
			if names[nm] || have[nm] {
				return false, "dupname"
			}
			names[nm] = true
		case "DEC_LIT", "HEX_LIT", "OCT_LIT":
			txt := t.Text
			if i > 0 && toks[i-1].Kind == "MINUS" && (i < 2 || !endsExpr(toks[i-2].Kind)) {
				txt = "-" + txt
			}
			v, err := strconv.ParseInt(txt, 0, 64)
			if err != nil {
				return false, "intrange"
			}
			// salience?
			j := i - 1
			if j >= 0 && toks[j].Kind == "MINUS" {
				j--
			}
			if j >= 0 && toks[j].Kind == "SALIENCE" && (v < math.MinInt32 || v > math.MaxInt32) {
				return false, "salrange"
			}
		case "DECIMAL_FLOAT_LIT", "HEX_FLOAT_LIT":
			if _, err := strconv.ParseFloat(t.Text, 64); err != nil {
				return false, "floatrange"
			}
		case "DQUOTA_STRING", "SQUOTA_STRING":
			// description (token right after ruleName) is raw
			if i >= 2 && toks[i-2].Kind == "RULE" {
				continue
			}
			if !validEscapes(t.Text) {
				return false, "escape"
			}
		}
	}
	return true, ""
}
