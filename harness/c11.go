package main

// C11: FetchMatchingRules returns exactly the satisfied rules, ordered by salience.
// C08: reusing a knowledge-base instance behaves like using a fresh one (histories of calls).

import (
	"context"
	"fmt"
	"math/rand"
	"sort"
	"strings"
	"time"

	"github.com/hyperjumptech/grule-rule-engine/ast"
)

// MonFetch judges one FetchMatchingRules call on facts init.
func MonFetch(prog *Program, res *RunResult, cfg RunCfg, init State, removed map[string]bool) (vs []Violation, domain bool, nontrivial bool) {
	if res.Panic != nil {
		return []Violation{{"FetchExact", 0, "", fmt.Sprintf("panic escaped FetchMatchingRules: %v", res.Panic)}}, false, false
	}
	truth := TruthOf(prog, CopyState(init))
	want := map[string]bool{}
	anyErr := ""
	sals := map[int64]bool{}
	for _, r := range prog.Rules {
		if removed[r.Name] {
			continue
		}
		t := truth[r.Name]
		if t.Domain {
			return nil, true, false
		}
		if t.Err {
			anyErr = r.Name
			continue
		}
		if t.Val {
			want[r.Name] = true
			sals[r.Sal] = true
		}
	}
	nontrivial = len(want) >= 2 && len(sals) >= 2 || anyErr != "" || len(removed) > 0
	if cfg.RetErr && anyErr != "" {
		if res.Err == nil {
			vs = append(vs, Violation{"FetchExact", 0, anyErr, "its condition fails to evaluate and ReturnErrOnFailedRuleEvaluation is set, but no error was returned"})
		}
		return vs, false, nontrivial
	}
	if res.Err != nil {
		vs = append(vs, Violation{"FetchExact", 0, "", "unexpected error: " + res.Err.Error()})
		return vs, false, nontrivial
	}
	got := map[string]int{}
	for _, n := range res.Matched {
		got[n]++
	}
	for n, k := range got {
		if k > 1 {
			vs = append(vs, Violation{"FetchExact", 0, n, fmt.Sprintf("returned %d times", k)})
		}
		if !want[n] {
			why := "its condition is false"
			if removed[n] {
				why = "it was removed"
			} else if truth[n].Err {
				why = "its condition fails to evaluate"
			} else if prog.Rule(n) == nil {
				why = "it is not a rule of this knowledge base"
			}
			vs = append(vs, Violation{"FetchExact", 0, n, "returned although " + why})
		}
	}
	for n := range want {
		if got[n] == 0 {
			vs = append(vs, Violation{"FetchExact", 0, n, "its condition is true on the given facts but it was not returned"})
		}
	}
	for i := 1; i < len(res.MSal); i++ {
		if res.MSal[i] > res.MSal[i-1] {
			vs = append(vs, Violation{"FetchExact", 0, res.Matched[i], fmt.Sprintf("salience order not non-increasing: %v", res.MSal)})
			break
		}
	}
	for i, n := range res.Matched {
		if r := prog.Rule(n); r != nil && i < len(res.MSal) && int64(res.MSal[i]) != r.Sal {
			vs = append(vs, Violation{"FetchExact", 0, n, fmt.Sprintf("returned entry has salience %d, declared %d", res.MSal[i], r.Sal)})
		}
	}
	// no rule action executed, facts untouched
	if d := DiffCanon(Canon(res.Final), Canon(init)); d != "" {
		vs = append(vs, Violation{"FetchExact", 0, "", "facts changed during FetchMatchingRules: " + d})
	}
	for _, e := range res.Events {
		switch e.Kind {
		case "exec", "inc", "add", "complete":
			vs = append(vs, Violation{"FetchExact", 0, "", "FetchMatchingRules produced an action-side event: " + e.String()})
		case "method":
			if e.Key == "Mark" || e.Key == "Poke" {
				vs = append(vs, Violation{"FetchExact", 0, "", "an action method was called during FetchMatchingRules: " + e.Key})
			}
		}
	}
	return vs, false, nontrivial
}

var c11Opts = TraceOpts{MinRules: 3, MaxRules: 15, MinPool: 3, MaxPool: 7, Control: true, Calls: true, Strs: true, Times: true, Depth: 3, ManyTrue: true, Faulty: true}

func runC11Case(c *Ctx, idx int) *CaseResult {
	cr := &CaseResult{}
	r := c.Rng(idx, 0)
	prog := GenTraceProgram(r, c11Opts)
	style := traceStyle(c.Rng(idx, 1))
	if style.Redundant {
		DecorateProgram(prog, c.Rng(idx, 2))
	}
	pipeline := pipelines[r.Intn(len(pipelines))]
	lib, text, err := BuildVia(pipeline, prog, style)
	if err != nil {
		cr.inconclusive("generated program rejected by the builder (judged by C17)")
		return cr
	}
	for si := 0; si < 2; si++ {
		sr := c.Rng(idx, 100+si)
		init := GenState(sr)
		if sr.Intn(3) == 0 {
			hostileState(sr, init)
		}
		kb, err := NewInstance(lib)
		if err != nil {
			cr.inconclusive("instance creation failed (judged by C09)")
			continue
		}
		removed := map[string]bool{}
		if sr.Intn(3) == 0 {
			n := prog.Rules[sr.Intn(len(prog.Rules))].Name
			kb.RemoveRuleEntry(n)
			removed[n] = true
		}
		if sr.Intn(3) == 0 {
			// a previously executed instance (its rules may have retracted themselves)
			Run(kb, prog, CopyStateLive(GenState(sr)), RunCfg{MaxCycle: 6, NoSnap: true})
			cr.inc("fetch_on_previously_executed_instance")
		}
		retErr := sr.Intn(3) == 0
		init2 := GenState(sr) // the second half of the repetitions uses other facts on the same instance
		orig := init
		for rep := 0; rep < 8; rep++ {
			init = orig
			if rep >= 4 {
				init = init2
			}
			cfg := RunCfg{Fetch: true, RetErr: retErr}
			res := Run(kb, prog, CopyStateLive(init), cfg)
			cr.Evals++
			vs, domain, nt := MonFetch(prog, res, cfg, init, removed)
			if domain {
				cr.inconclusive("a condition is outside the modelled domain on these facts")
				break
			}
			if len(vs) > 0 {
				d := caseDetail(text, pipeline, init, res, vs)
				d["returned"] = res.Matched
				d["removed"] = fmt.Sprint(removed)
				cr.violate(joinViol(vs[:min(3, len(vs))]), d)
				break
			}
			if nt && (rep == 0 || rep == 4) {
				cr.NonTrivial = append(cr.NonTrivial, hashStr(fmt.Sprintf("%s|%d|%d", text, si, rep)))
			}
			cr.set("returned_orders", hashStr(strings.Join(res.Matched, ",")))
			if cr.Sample == nil && len(res.Matched) >= 2 {
				cr.Sample = map[string]interface{}{"grl": trunc(text, 1000), "returned": res.Matched, "saliences": res.MSal, "return_err_flag": retErr, "removed": fmt.Sprint(removed)}
			}
		}
	}
	return cr
}

// ---------------------------------------------------------------------------
// C08: histories

type histCall struct {
	Kind   string // execute | context | fetch
	Ending string // normal | limit | cancel | error(hostile facts)
}

var c08Opts = TraceOpts{MinRules: 2, MaxRules: 7, MinPool: 3, MaxPool: 6, Control: true, Announce: true, Calls: true, Strs: true, Depth: 2, ManyTrue: true, Faulty: true}

func runC08Case(c *Ctx, idx int) *CaseResult {
	cr := &CaseResult{}
	if idx < len(c08DirectedCases) {
		return runC08Directed(c, idx, cr)
	}
	idx -= len(c08DirectedCases)
	r := c.Rng(idx, 0)
	prog := GenTraceProgram(r, c08Opts)
	style := traceStyle(c.Rng(idx, 1))
	if style.Redundant {
		DecorateProgram(prog, c.Rng(idx, 2))
	}
	pipeline := pipelines[r.Intn(len(pipelines))]
	lib, text, err := BuildVia(pipeline, prog, style)
	if err != nil {
		cr.inconclusive("generated program rejected by the builder (judged by C17)")
		return cr
	}
	kb, err := NewInstance(lib)
	if err != nil {
		cr.inconclusive("instance creation failed (judged by C09)")
		return cr
	}
	// every third history keeps ONE engine object and ONE data context for all its calls and
	// alternates between two instances of the same knowledge base
	var shared *SharedEnv
	kbs := []*ast.KnowledgeBase{kb}
	if idx%3 == 0 {
		shared = &SharedEnv{}
		if kb2, err := NewInstance(lib); err == nil {
			kbs = append(kbs, kb2)
		}
		cr.inc("histories_with_shared_engine_and_data_context")
	}
	ncalls := 2 + r.Intn(5)
	var hist []string
	leftBehind := false // an earlier call left state behind (retraction, memo, completion)
	for k := 0; k < ncalls; k++ {
		sr := c.Rng(idx, 100+k)
		init := GenState(sr)
		kind := []string{"execute", "execute", "context", "fetch"}[sr.Intn(4)]
		ending := []string{"normal", "normal", "limit", "cancel", "error"}[sr.Intn(5)]
		if ending == "error" {
			hostileState(sr, init)
		}
		if shared != nil {
			kb = kbs[k%len(kbs)]
			if _, ok := init["G"]; !ok {
				init["G"] = GenState(sr)["G"] // a shared data context keeps its entries: no missing fact here
			}
		}
		if kind == "fetch" {
			cfg := RunCfg{Fetch: true, Shared: shared}
			res := Run(kb, prog, CopyStateLive(init), cfg)
			cr.Evals++
			vs, domain, _ := MonFetch(prog, res, cfg, init, nil)
			hist = append(hist, "fetch")
			if domain {
				cr.inc("calls_outside_domain")
				continue
			}
			if len(vs) > 0 {
				d := caseDetail(text, pipeline, init, res, vs)
				d["history"] = hist
				cr.violate(fmt.Sprintf("call %d of the history (%s): %s", k+1, strings.Join(hist, " -> "), joinViol(vs[:min(2, len(vs))])), d)
				return cr
			}
			if leftBehind {
				cr.NonTrivial = append(cr.NonTrivial, hashStr(fmt.Sprintf("%s|%d", text, k)))
				cr.inc("fetch_after_state_left_behind")
			}
			continue
		}
		cfg := RunCfg{MaxCycle: uint64(6 + sr.Intn(20)), Shared: shared}
		// strict mode in a third of the calls (an instance that has reported a failing condition
		// once must report it again in a later call)
		if sr.Intn(3) == 0 {
			cfg.RetErr = true
			cr.inc("calls_with_ReturnErrOnFailedRuleEvaluation")
		}
		if ending == "limit" {
			cfg.MaxCycle = uint64(sr.Intn(3))
		}
		var cancel context.CancelFunc
		if kind == "context" || ending == "cancel" {
			cfg.Ctx, cancel = context.WithCancel(context.Background())
			cfg.Cancel = cancel
			if ending == "cancel" {
				cfg.CancelAtEvent = 1 + sr.Intn(25)
			}
		}
		res := Run(kb, prog, CopyStateLive(init), cfg)
		if cancel != nil {
			cancel()
		}
		cr.Evals++
		hist = append(hist, kind+"/"+ending)
		if res.Panic != nil {
			cr.violate(fmt.Sprintf("panic escaped call %d: %v", k+1, res.Panic), caseDetail(text, pipeline, init, res, nil))
			return cr
		}
		// fresh-instance assumptions: every rule active at the start, nothing remembered
		a := Analyze(prog, res, cfg, nil)
		var vs []Violation
		vs = append(vs, MonFiresOnlyWhenTrue(a)...)
		vs = append(vs, MonCandidatesComplete(a)...)
		vs = append(vs, MonMaxSalience(a)...)
		vs = append(vs, MonControl(a)...)
		if ending != "cancel" {
			vs = append(vs, MonProtocol(a)...)
			if cfg.RetErr {
				vs = append(vs, MonFaultContainment(a, nil)...)
			}
		}
		if len(vs) > 0 {
			d := caseDetail(text, pipeline, init, res, vs)
			d["history"] = hist
			cr.violate(fmt.Sprintf("call %d of the history (%s) does not behave like on a fresh instance: %s", k+1, strings.Join(hist, " -> "), joinViol(vs[:min(2, len(vs))])), d)
			return cr
		}
		if leftBehind && len(a.Cycles) > 0 {
			cr.NonTrivial = append(cr.NonTrivial, hashStr(fmt.Sprintf("%s|%d", text, k)))
			cr.inc("calls_after_state_left_behind_" + ending)
		}
		// what does this call leave behind?
		for _, ci := range a.Cycles {
			if ci.Ctl != nil && (len(ci.Ctl.Retracted) > 0 || ci.Ctl.Complete) {
				leftBehind = true
			}
		}
		if len(a.Cycles) > 0 {
			leftBehind = true // remembered values
		}
		if shared != nil {
			for _, e := range res.Events {
				if e.Kind == "complete" {
					shared.DC = nil // a completed data context is not reused (the property speaks of a new data context)
				}
			}
		}
		cr.set("endings", ending+":"+errClass(res.Err))
	}
	if idx%25 == 0 {
		c08ClockProbe(cr)
	}
	if cr.Sample == nil {
		cr.Sample = map[string]interface{}{"grl": trunc(text, 800), "history": hist, "pipeline": pipeline}
	}
	return cr
}

// c08ClockProbe: a value that has no variable in it (Now()) must not be remembered across calls
// either: the time stamped by the n-th call on a reused instance is never earlier than the
// harness's own clock reading taken just before that call (ordering only, no deadline).
func c08ClockProbe(cr *CaseResult) {
	lib, err := BuildLib(`rule Stamp "clock" { when IsTimeAfter(Now(), F.Tm) then F.Tm2 = Now(); Retract("Stamp"); }`)
	if err != nil {
		return
	}
	kb, err := NewInstance(lib)
	if err != nil {
		return
	}
	for call := 1; call <= 3; call++ {
		st := GenState(rand.New(rand.NewSource(int64(call))))
		f := st["F"].(*Fact)
		f.Tm = time.Unix(0, 0)
		f.Tm2 = time.Time{}
		before := time.Now()
		res := Run(kb, nil, st, RunCfg{MaxCycle: 3, NoSnap: true})
		cr.Evals++
		if res.Err != nil || res.Panic != nil {
			return
		}
		if f.Tm2.Before(before) {
			cr.violate(fmt.Sprintf("call %d on a reused instance stamped Now() = %s, which is earlier than the moment the call started (%s): a value remembered from an earlier call was used", call, f.Tm2.Format(time.RFC3339Nano), before.Format(time.RFC3339Nano)),
				map[string]interface{}{"grl": `rule Stamp "clock" { when IsTimeAfter(Now(), F.Tm) then F.Tm2 = Now(); Retract("Stamp"); }`, "call": call})
			return
		}
		time.Sleep(2 * time.Millisecond)
	}
	cr.inc("clock_probes")
}

func errClass(err error) string {
	switch {
	case err == nil:
		return "nil"
	case strings.Contains(err.Error(), "cycles"):
		return "cycle-limit"
	case strings.Contains(err.Error(), "context"):
		return "context"
	case strings.Contains(err.Error(), "executing rule"):
		return "action-error"
	}
	return "other"
}

var _ = sort.Strings
var _ *ast.KnowledgeBase

func init() {
	register(&Check{
		ID: "C11", Level: "exploration",
		Rule: "3-15 rules with mixed conditions (many simultaneously true, equal saliences, conditions that fail on hostile facts), removed rules, fresh and previously executed instances, both settings of ReturnErrOnFailedRuleEvaluation, each call repeated 8x (map order); oracle = reference matching set over the non-removed rules, ordering, deep comparison of the facts before/after, no action-side event; non-trivial = distinct (program, state) whose matching set has >=2 members with >=2 saliences, or contains an erroring / removed rule",
		Assume: []string{"same domain as C01"},
		Cases:  func(t string) int { return tierN(1000, 40000)(t) + len(c08DirectedCases) },
		Run:    runC11Case,
	})
	register(&Check{
		ID: "C08", Level: "exploration",
		Rule: "histories of 2-6 calls on ONE instance, each call in {Execute, ExecuteWithContext, FetchMatchingRules} with its own facts and its own ending {normal, Complete, action error on hostile facts, cycle limit (MaxCycle 0-2), cancellation at a chosen boundary event}; every call is judged by the per-run monitors (C01, C02, C03, C06, C10 / fetch exactness) re-armed under fresh-instance assumptions (all non-removed rules active, nothing remembered); non-trivial = distinct (history, position) calls made after an earlier call left state behind (retraction, remembered values, completion); a third of the calls in strict mode, judged by the fault-containment monitor as well; 32 directed histories first: a call on malformed facts (a string / number in a boolean slot) followed by short-circuiting and fully evaluating calls, and members alternating between a value and JSON null",
		Assume: []string{"comparison is against the reference's set of permitted behaviours, not against a literal second run (equal saliences make two correct runs differ)"},
		Cases:  func(t string) int { return tierN(1000, 40000)(t) + len(c08DirectedCases) },
		Run:    runC08Case,
	})
}
