package main

// Engine runner and recorder: builds knowledge bases through the pipelines of DESIGN §4.1,
// runs the real engine with a listener, a data-context proxy and hooked Tool methods, and
// returns one totally ordered event list plus per-cycle reference observations.

import (
	"bytes"
	"context"
	"encoding/json"
	"fmt"
	"reflect"
	"runtime"
	"strings"
	"sort"
	"sync"
	"sync/atomic"
	"time"

	"github.com/hyperjumptech/grule-rule-engine/ast"
	"github.com/hyperjumptech/grule-rule-engine/builder"
	"github.com/hyperjumptech/grule-rule-engine/engine"
	"github.com/hyperjumptech/grule-rule-engine/model"
	"github.com/hyperjumptech/grule-rule-engine/pkg"
)

// Event is one observation, stamped from one atomic counter.
type Event struct {
	Seq   int64  `json:"seq"`
	Kind  string `json:"kind"` // start begin eval setrule exec get add inc iscomplete complete method cancel
	Cycle uint64 `json:"cycle,omitempty"`
	Rule  string `json:"rule,omitempty"`
	Cand  bool   `json:"cand,omitempty"`
	Key   string `json:"key,omitempty"`
	N     int    `json:"n,omitempty"`
	Fault string `json:"fault,omitempty"`
	L     int    `json:"l,omitempty"` // listener index for listener events
}

func (e Event) String() string {
	switch e.Kind {
	case "begin":
		return fmt.Sprintf("Begin:%d", e.Cycle)
	case "eval":
		return fmt.Sprintf("Eval:%d:%s:%v", e.Cycle, e.Rule, e.Cand)
	case "exec":
		return fmt.Sprintf("Exec:%d:%s", e.Cycle, e.Rule)
	case "setrule":
		return "SetRule:" + e.Rule
	case "get", "add":
		return e.Kind + ":" + e.Key
	case "method":
		s := fmt.Sprintf("M%d:%s", e.N, e.Key)
		if e.Fault != "" {
			s += "!" + e.Fault
		}
		return s
	}
	return e.Kind
}

// Truth is the reference value of one rule condition at one instant.
type Truth struct {
	Val    bool
	Err    bool // evaluation fails per documentation
	Domain bool // out of the modelled domain
	Msg    string
}

// CycleRec is what the recorder stores at BeginCycle.
type CycleRec struct {
	Cycle uint64
	Seq   int64
	Start State            // deep copy of the live facts at BeginCycle (shadow tools)
	Truth map[string]Truth // reference truth of every rule of the program on Start
}

// Recorder collects events. All methods are safe for concurrent use.
type Recorder struct {
	mu      sync.Mutex
	stamp   *int64
	Events  []Event
	Cycles  []*CycleRec
	prog    *Program
	live    func() State
	After   map[uint64]State // live copy taken at IsComplete after the firing of that cycle
	limit   int              // abort the run (sentinel panic) after this many begin events
	begins  int
	Aborted bool
	onEvent func(kind string, n int) // called for begin/eval/exec/method events with the running number of such boundary events
	nbound  int
	noSnap  bool
	nListeners int
	// cancellation (CancelAtEvent): facts at the instant of cancel(), and the kind of event
	CancelSnap State
	CancelKind string
}

type runAbort struct{}

func (r *Recorder) add(e Event) int64 {
	e.Seq = atomic.AddInt64(r.stamp, 1)
	r.mu.Lock()
	r.Events = append(r.Events, e)
	r.mu.Unlock()
	return e.Seq
}

func (r *Recorder) boundary(kind string) {
	r.mu.Lock()
	r.nbound++
	n := r.nbound
	r.mu.Unlock()
	if r.onEvent != nil {
		r.onEvent(kind, n)
	}
}

func (r *Recorder) methodEvent(name string, n int, seq int64, fault string) {
	r.mu.Lock()
	r.Events = append(r.Events, Event{Seq: seq, Kind: "method", Key: name, N: n, Fault: fault})
	r.mu.Unlock()
	r.boundary("method")
}

func (r *Recorder) cancelEvent() {
	r.add(Event{Kind: "cancel"})
}

// listener implements engine.GruleEngineListener; idx 0 is the recording one that also takes
// the reference observations, the others only log (C06 compares their sequences).
type listener struct {
	rec *Recorder
	idx int
}

func (l *listener) BeginCycle(ctx context.Context, cycle uint64) {
	seq := l.rec.add(Event{Kind: "begin", Cycle: cycle, L: l.idx})
	if l.idx != 0 {
		return
	}
	r := l.rec
	r.begins++
	if r.limit > 0 && r.begins > r.limit {
		r.Aborted = true
		panic(runAbort{})
	}
	if !r.noSnap && r.live != nil {
		st := CopyState(r.live())
		cr := &CycleRec{Cycle: cycle, Seq: seq, Start: st}
		if r.prog != nil {
			cr.Truth = TruthOf(r.prog, st)
		}
		r.mu.Lock()
		r.Cycles = append(r.Cycles, cr)
		r.mu.Unlock()
	}
	r.boundary("begin")
}

func (l *listener) EvaluateRuleEntry(ctx context.Context, cycle uint64, entry *ast.RuleEntry, candidate bool) {
	l.rec.add(Event{Kind: "eval", Cycle: cycle, Rule: entry.RuleName, Cand: candidate, L: l.idx})
	if l.idx == 0 {
		l.rec.boundary("eval")
	}
}

func (l *listener) ExecuteRuleEntry(ctx context.Context, cycle uint64, entry *ast.RuleEntry) {
	l.rec.add(Event{Kind: "exec", Cycle: cycle, Rule: entry.RuleName, L: l.idx})
	if l.idx == 0 {
		l.rec.boundary("exec")
	}
	if l.idx == l.rec.nListeners-1 {
		// the last listener returns: only now may the rule's action list start
		l.rec.add(Event{Kind: "execdone", Cycle: cycle, Rule: entry.RuleName})
	}
}

// TruthOf evaluates every rule condition of prog on st with the reference semantics.
func TruthOf(prog *Program, st State) map[string]Truth {
	m := make(map[string]Truth, len(prog.Rules))
	for _, rule := range prog.Rules {
		v, err := ref.EvalCond(rule.When, st)
		t := Truth{Val: v}
		if err != nil {
			t.Msg = err.Error()
			if isDomainErr(err) {
				t.Domain = true
			} else {
				t.Err = true
			}
		}
		m[rule.Name] = t
	}
	return m
}

// proxyCtx wraps the real data context; every call the oracles need is an event.
type proxyCtx struct {
	ast.IDataContext
	rec      *Recorder
	curCycle func() uint64
}

func (p *proxyCtx) Add(key string, obj interface{}) error {
	if key == "DEFUNC" {
		p.rec.add(Event{Kind: "start"})
	} else {
		p.rec.add(Event{Kind: "add", Key: key})
	}
	return p.IDataContext.Add(key, obj)
}

func (p *proxyCtx) Get(key string) model.ValueNode {
	if key != "DEFUNC" {
		p.rec.add(Event{Kind: "get", Key: key})
	}
	return p.IDataContext.Get(key)
}

func (p *proxyCtx) SetRuleEntry(re *ast.RuleEntry) {
	name := ""
	if re != nil {
		name = re.RuleName
	}
	p.rec.add(Event{Kind: "setrule", Rule: name})
	p.IDataContext.SetRuleEntry(re)
}

func (p *proxyCtx) IsComplete() bool {
	seq := p.rec.add(Event{Kind: "iscomplete"})
	r := p.rec
	if !r.noSnap && r.live != nil {
		st := CopyState(r.live())
		r.mu.Lock()
		if r.After == nil {
			r.After = map[uint64]State{}
		}
		// key: the stamp of the event (the engine may ask IsComplete any number of times)
		r.After[uint64(seq)] = st
		r.mu.Unlock()
	}
	return p.IDataContext.IsComplete()
}

func (p *proxyCtx) Complete() {
	p.rec.add(Event{Kind: "complete"})
	p.IDataContext.Complete()
}

func (p *proxyCtx) IncrementVariableChangeCount() {
	p.rec.add(Event{Kind: "inc"})
	p.IDataContext.IncrementVariableChangeCount()
}

// triggerCtx is a context whose end is triggered synchronously by the harness, either as a
// cancellation or as an expired deadline (the engine only ever asks Err()).
type triggerCtx struct {
	mu       sync.Mutex
	err      error
	done     chan struct{}
	flavour  error
	future   bool // carries a deadline far in the future
	errCalls int
	atCall   int    // end the context just before the atCall-th Err() call (0 = never)
	onEnd    func() // called (outside the lock) when atCall fires
}

func newTriggerCtx(flavour error) *triggerCtx {
	return &triggerCtx{done: make(chan struct{}), flavour: flavour}
}

// triggerFlavours: how a context may end - cancelled, deadline expired, or cancelled early
// although it carries a deadline that still lies far in the future (WithTimeout + cancel()).
var triggerFlavours = []string{"cancel", "deadline", "cancel_before_deadline"}

func newTriggerCtxN(i int) (*triggerCtx, string) {
	switch n := triggerFlavours[i%3]; n {
	case "deadline":
		return newTriggerCtx(context.DeadlineExceeded), n
	case "cancel_before_deadline":
		t := newTriggerCtx(context.Canceled)
		t.future = true
		return t, n
	default:
		return newTriggerCtx(context.Canceled), n
	}
}
func (t *triggerCtx) Deadline() (time.Time, bool) {
	if t.flavour == context.DeadlineExceeded {
		return time.Unix(1, 0), true
	}
	if t.future {
		return time.Date(2200, 1, 1, 0, 0, 0, 0, time.UTC), true
	}
	return time.Time{}, false
}
func (t *triggerCtx) Done() <-chan struct{} { return t.done }
func (t *triggerCtx) Err() error {
	t.mu.Lock()
	t.errCalls++
	fire := t.atCall > 0 && t.errCalls == t.atCall && t.err == nil
	t.mu.Unlock()
	if fire && t.onEnd != nil {
		t.onEnd()
	}
	t.mu.Lock()
	defer t.mu.Unlock()
	return t.err
}

// ErrCalls returns how often Err() was called.
func (t *triggerCtx) ErrCalls() int {
	t.mu.Lock()
	defer t.mu.Unlock()
	return t.errCalls
}
func (t *triggerCtx) Value(key interface{}) interface{} { return nil }
func (t *triggerCtx) trigger() {
	t.mu.Lock()
	defer t.mu.Unlock()
	if t.err == nil {
		t.err = t.flavour
		close(t.done)
	}
}

// ---------------------------------------------------------------------------
// knowledge bases

const kbName, kbVer = "KB", "1.0"

// BuildLib builds a library from GRL texts, one resource per text.
func BuildLib(texts ...string) (*ast.KnowledgeLibrary, error) {
	lib := ast.NewKnowledgeLibrary()
	rb := builder.NewRuleBuilder(lib)
	for _, t := range texts {
		if err := rb.BuildRuleFromResource(kbName, kbVer, pkg.NewBytesResource([]byte(t))); err != nil {
			return lib, err
		}
	}
	return lib, nil
}

// ViaGRB stores the knowledge base of lib and loads it into a new library.
func ViaGRB(lib *ast.KnowledgeLibrary) (*ast.KnowledgeLibrary, error) {
	var buf bytes.Buffer
	if err := lib.StoreKnowledgeBaseToWriter(&buf, kbName, kbVer); err != nil {
		return nil, fmt.Errorf("store: %w", err)
	}
	l2 := ast.NewKnowledgeLibrary()
	if _, err := l2.LoadKnowledgeBaseFromReader(bytes.NewReader(buf.Bytes()), true); err != nil {
		return nil, fmt.Errorf("load: %w", err)
	}
	return l2, nil
}

// Pipeline names of DESIGN §4.1.
var pipelines = []string{"one", "multi", "grb", "multi+grb"}

// BuildVia builds prog through the named pipeline and returns the library.
func BuildVia(pipeline string, prog *Program, style *Style) (*ast.KnowledgeLibrary, string, error) {
	var texts []string
	switch pipeline {
	case "multi", "multi+grb":
		for _, r := range prog.Rules {
			texts = append(texts, style.PrintRule(r))
		}
	default:
		texts = []string{style.PrintProgram(prog)}
	}
	all := ""
	for _, t := range texts {
		all += t + "\n"
	}
	lib, err := BuildLib(texts...)
	if err != nil {
		return nil, all, fmt.Errorf("build: %w", err)
	}
	if pipeline == "grb" || pipeline == "multi+grb" {
		lib, err = ViaGRB(lib)
		if err != nil {
			return nil, all, err
		}
	}
	return lib, all, nil
}

// ---------------------------------------------------------------------------
// running

// RunCfg configures one engine call.
type RunCfg struct {
	MaxCycle   uint64
	RetErr     bool // ReturnErrOnFailedRuleEvaluation
	Listeners  int  // number of listeners (0 = only possible without recording; default 1)
	Ctx        context.Context
	Cancel     context.CancelFunc
	Hooks      *Hooks // fault / cancel plan applied to the Tool of the state
	Stamp      *int64
	NoSnap     bool // do not take reference observations (concurrent stress)
	OnEvent    func(kind string, n int)
	AbortAfter int // abort after this many cycles (logical hang detection); 0 = MaxCycle+2
	Fetch      bool // call FetchMatchingRules instead of Execute
	// CancelAtEvent > 0: cancel() is invoked synchronously when the n-th boundary event
	// (BeginCycle, EvaluateRuleEntry, ExecuteRuleEntry, harness method call) occurs.
	CancelAtEvent int
	// CancelAtErrCall > 0 (Ctx must be a *triggerCtx): the context ends just before the engine's
	// k-th ctx.Err() call.
	CancelAtErrCall int
	// Shared, when set, makes consecutive calls use ONE engine object and ONE data context
	// (facts are re-added before every call), as an application that keeps both around does.
	Shared *SharedEnv
	// PreComplete: Complete() is called on the data context before the engine call
	PreComplete bool
	// Eng, when set, is used as is (no listeners are attached, MaxCycle is the engine's own):
	// for executions that share one engine object across goroutines
	Eng *engine.GruleEngine
}

// SharedEnv is an engine and a data context kept across calls.
type SharedEnv struct {
	Eng *engine.GruleEngine
	DC  ast.IDataContext
	px  *proxyCtx // the one object the engine sees as data context
}

// RunResult is everything observed in one engine call.
type RunResult struct {
	Events  []Event
	Cycles  []*CycleRec
	After   map[uint64]State
	Err     error
	Panic   interface{} // a panic that escaped the API
	Aborted bool        // the logical hang detector fired
	Blocked string      // non-empty: the engine call never returned; state of its parked goroutine
	Final   State       // deep copy of the live facts at return
	Calls   []CallRec
	Matched []string // FetchMatchingRules result (names in returned order)
	MSal    []int
	Rec     *Recorder
	NBound  int // number of boundary events seen
	EntrySal map[string]int // salience held by every non-removed rule entry of the knowledge base
}

// liveReader returns a function reading the current content of a data context whose keys are
// those of the initial state (plus anything the run added at top level).
func liveReader(dc ast.IDataContext, init State) func() State {
	return func() State {
		st := State{}
		for _, k := range dc.GetKeys() {
			if k == "DEFUNC" {
				continue
			}
			vn := dc.Get(k)
			if vn == nil {
				continue
			}
			if jf, ok := init[k].(*JSONFact); ok && jf != nil {
				v := vn.Value()
				if v.IsValid() {
					st[k] = &JSONFact{Tree: v.Interface()}
				} else {
					st[k] = &JSONFact{}
				}
				continue
			}
			v := vn.Value()
			if !v.IsValid() {
				st[k] = nil
				continue
			}
			st[k] = v.Interface()
		}
		return st
	}
}

// NewDataCtx creates a real data context holding st. Go facts are added by pointer (the
// caller's own objects), JSON facts as documents, scalars as values.
func NewDataCtx(st State) (ast.IDataContext, error) {
	dc := ast.NewDataContext()
	return dc, fillDataCtx(dc, st)
}

// fillDataCtx adds (or replaces) every entry of st in dc.
func fillDataCtx(dc ast.IDataContext, st State) error {
	keys := make([]string, 0, len(st))
	for k := range st {
		keys = append(keys, k)
	}
	sort.Strings(keys)
	for _, k := range keys {
		switch v := st[k].(type) {
		case *JSONFact:
			b, err := json.Marshal(v.Tree)
			if err != nil {
				return err
			}
			if err := dc.AddJSON(k, b); err != nil {
				return err
			}
		default:
			if err := dc.Add(k, v); err != nil {
				return err
			}
		}
	}
	return nil
}

// Run executes kb on st (st's own objects are handed to the engine and mutated by it).
func Run(kb *ast.KnowledgeBase, prog *Program, st State, cfg RunCfg) *RunResult {
	res := &RunResult{}
	stamp := cfg.Stamp
	if stamp == nil {
		stamp = new(int64)
	}
	rec := &Recorder{stamp: stamp, prog: prog, noSnap: cfg.NoSnap, onEvent: cfg.OnEvent}
	res.Rec = rec
	if tc, ok := cfg.Ctx.(*triggerCtx); ok && cfg.CancelAtErrCall > 0 {
		tc.atCall = cfg.CancelAtErrCall
		tc.onEnd = func() {
			if rec.live != nil && !rec.noSnap {
				rec.CancelSnap = CopyState(rec.live())
			}
			rec.CancelKind = "ctx.Err()"
			tc.trigger()
			rec.cancelEvent()
		}
	}
	if cfg.CancelAtEvent > 0 && cfg.Cancel != nil {
		user := cfg.OnEvent
		rec.onEvent = func(kind string, n int) {
			if n == cfg.CancelAtEvent {
				if rec.live != nil && !rec.noSnap {
					rec.CancelSnap = CopyState(rec.live())
				}
				rec.CancelKind = kind
				cfg.Cancel()
				rec.cancelEvent()
			}
			if user != nil {
				user(kind, n)
			}
		}
	}
	if t, ok := st["T"].(*Tool); ok && t != nil {
		if cfg.Hooks == nil {
			cfg.Hooks = &Hooks{}
		}
		cfg.Hooks.stamp = stamp
		cfg.Hooks.Rec = rec
		if cfg.Cancel != nil && cfg.Hooks.Cancel == nil {
			cfg.Hooks.Cancel = cfg.Cancel
		}
		t.h = cfg.Hooks
		t.shad = false
	}
	var dc ast.IDataContext
	var err error
	if cfg.Shared != nil && cfg.Shared.DC != nil {
		dc = cfg.Shared.DC
		err = fillDataCtx(dc, st)
	} else {
		dc, err = NewDataCtx(st)
		if cfg.Shared != nil {
			cfg.Shared.DC = dc
		}
	}
	if err != nil {
		res.Err = fmt.Errorf("harness: data context: %w", err)
		return res
	}
	rec.live = liveReader(dc, st)
	if cfg.PreComplete {
		// a data context that an earlier run (or the caller) has completed
		dc.Complete()
	}
	eng := engine.NewGruleEngine()
	if cfg.Shared != nil {
		if cfg.Shared.Eng == nil {
			cfg.Shared.Eng = eng
		}
		eng = cfg.Shared.Eng
		eng.Listeners = nil
	}
	if cfg.Eng != nil {
		// one engine object used by several goroutines at the same time: it is only read here
		// (its MaxCycle is fixed by the caller, it has no listeners)
		eng = cfg.Eng
	} else {
		eng.MaxCycle = cfg.MaxCycle
		eng.ReturnErrOnFailedRuleEvaluation = cfg.RetErr
		nl := cfg.Listeners
		if nl == 0 {
			nl = 1
		}
		rec.nListeners = nl
		for i := 0; i < nl; i++ {
			eng.Listeners = append(eng.Listeners, &listener{rec: rec, idx: i})
		}
	}
	rec.limit = cfg.AbortAfter
	if rec.limit == 0 {
		rec.limit = int(cfg.MaxCycle) + 2
	}
	px := &proxyCtx{IDataContext: dc, rec: rec}
	if cfg.Shared != nil {
		if cfg.Shared.px != nil && cfg.Shared.px.IDataContext == dc {
			px = cfg.Shared.px
			px.rec = rec
		} else {
			cfg.Shared.px = px
		}
	}
	ctx := cfg.Ctx
	if ctx == nil {
		ctx = context.Background()
	}
	// the engine call runs on its own goroutine so that a call that never returns because it is
	// parked on a lock can be told from one that is still working (see waitEngine)
	done := make(chan struct{})
	var gid int64
	go func() {
		defer close(done)
		atomic.StoreInt64(&gid, curGoroutineID())
		defer func() {
			if p := recover(); p != nil {
				if _, ok := p.(runAbort); ok {
					res.Aborted = true
					return
				}
				res.Panic = p
			}
		}()
		if cfg.Fetch {
			rules, err := eng.FetchMatchingRules(px, kb)
			res.Err = err
			for _, r := range rules {
				res.Matched = append(res.Matched, r.RuleName)
				res.MSal = append(res.MSal, r.Salience)
			}
		} else {
			res.Err = eng.ExecuteWithContext(ctx, px, kb)
		}
	}()
	if state := waitEngine(done, stamp, &gid); state != "" {
		// the call is parked for good: hand back what was recorded so far (the goroutine stays behind)
		rec.mu.Lock()
		res.Events = append([]Event(nil), rec.Events...)
		res.Cycles = append([]*CycleRec(nil), rec.Cycles...)
		rec.mu.Unlock()
		res.Aborted = true
		res.Blocked = state
		res.Err = fmt.Errorf("harness: the engine call did not return (%s)", state)
		res.EntrySal = map[string]int{}
		return res
	}
	res.Final = CopyState(rec.live())
	res.NBound = rec.nbound
	res.EntrySal = map[string]int{}
	for _, re := range kb.RuleEntries {
		if !re.Deleted {
			res.EntrySal[re.RuleName] = re.Salience
		}
	}
	res.Events = rec.Events
	res.Cycles = rec.Cycles
	res.After = rec.After
	if cfg.Hooks != nil {
		res.Calls = cfg.Hooks.Calls
	}
	return res
}

// NewInstance creates an instance of the harness knowledge base from lib.
func NewInstance(lib *ast.KnowledgeLibrary) (*ast.KnowledgeBase, error) {
	return lib.NewKnowledgeBaseInstance(kbName, kbVer)
}

var _ = reflect.TypeOf

// curGoroutineID reads the id of the calling goroutine from its stack header.
func curGoroutineID() int64 {
	var buf [64]byte
	n := runtime.Stack(buf[:], false)
	var id int64
	fmt.Sscanf(string(buf[:n]), "goroutine %d ", &id)
	return id
}

// parkedStates are goroutine wait reasons from which only another goroutine can release.
var parkedStates = []string{"semacquire", "sync.Mutex.Lock", "sync.RWMutex.Lock", "sync.RWMutex.RLock", "chan receive", "chan send", "select", "sync.Cond.Wait", "sync.WaitGroup.Wait"}

// waitEngine waits for the engine call. It returns "" when the call returned. When no event
// has been recorded for 30 s it looks at the state of the call's goroutine: if that goroutine is
// parked on a lock / channel (twice, 10 s apart, with still no event) the call is blocked for
// good and the wait reason is returned; a goroutine that is running or runnable is waited for
// (a wall-clock limit is no verdict: after 20 minutes the result is "no verdict", reported as blocked
// with the reason "still running").
func waitEngine(done chan struct{}, stamp *int64, gid *int64) string {
	t := time.NewTimer(2 * time.Second)
	defer t.Stop()
	last := atomic.LoadInt64(stamp)
	idle, parkedSeen := 0, 0
	for {
		select {
		case <-done:
			return ""
		case <-t.C:
		}
		t.Reset(2 * time.Second)
		if cur := atomic.LoadInt64(stamp); cur != last {
			last, idle, parkedSeen = cur, 0, 0
			continue
		}
		idle++
		if idle < 15 || idle%5 != 0 {
			continue
		}
		state := goroutineState(atomic.LoadInt64(gid))
		parked := false
		for _, p := range parkedStates {
			if strings.HasPrefix(state, p) {
				parked = true
			}
		}
		if parked {
			parkedSeen++
			if parkedSeen >= 2 {
				return "goroutine parked: " + state
			}
		} else {
			parkedSeen = 0
		}
		if idle >= 600 {
			return "still " + state + " after 20 minutes without an event"
		}
	}
}

// goroutineState returns the wait reason of goroutine id from a dump of all goroutines.
func goroutineState(id int64) string {
	buf := make([]byte, 1<<20)
	for {
		n := runtime.Stack(buf, true)
		if n < len(buf) {
			buf = buf[:n]
			break
		}
		buf = make([]byte, 2*len(buf))
	}
	head := fmt.Sprintf("goroutine %d [", id)
	i := strings.Index(string(buf), head)
	if i < 0 {
		return "gone"
	}
	rest := string(buf[i+len(head):])
	if j := strings.IndexAny(rest, "]"); j >= 0 {
		rest = rest[:j]
	}
	return rest
}
