package main

// Child process of C20: runs one loader over a batch of input files under RLIMIT_AS, logging
// BEGIN i before touching input i and END i <cpu_ns> <sys_growth> <outcome> afterwards, so that
// a death is attributed to an input; a watchdog goroutine turns an input that exceeds its CPU
// budget into a marker line and a clean exit (a loop is a verdict, not a timeout).

import (
	"bytes"
	"fmt"
	"math/rand"
	"os"
	"path/filepath"
	"runtime"
	"strconv"
	"sync/atomic"
	"syscall"
	"time"

	"github.com/hyperjumptech/grule-rule-engine/ast"
	"github.com/hyperjumptech/grule-rule-engine/builder"
	"github.com/hyperjumptech/grule-rule-engine/pkg"
)

func cpuNow() int64 {
	var ru syscall.Rusage
	syscall.Getrusage(syscall.RUSAGE_SELF, &ru)
	return ru.Utime.Nano() + ru.Stime.Nano()
}

// cpuBudgetNs is T(n): fixed affine-in-n^2 budget (see DESIGN C20), >= 10x the worst case
// measured on the valid and mutated corpora of the unchanged tree.
func cpuBudgetNs(n int) int64 {
	return int64(30e9) + int64(n)*int64(n)*2000
}

// memBudget is M(n): memory obtained from the OS may grow by at most this for one input.
func memBudget(n int) int64 {
	return 512<<20 + int64(n)*256
}

func runLoader(loader string, data []byte) (outcome string) {
	defer func() {
		if p := recover(); p != nil {
			outcome = "PANIC " + strconv.Quote(fmt.Sprint(p))
		}
	}()
	switch loader {
	case "grl":
		lib := ast.NewKnowledgeLibrary()
		err := builder.NewRuleBuilder(lib).BuildRuleFromResource("K", "1", pkg.NewBytesResource(data))
		if err != nil {
			return "error"
		}
		return "ok"
	case "jsonrule":
		res, err := pkg.NewJSONResourceFromResource(pkg.NewBytesResource(data))
		if err != nil {
			return "error"
		}
		grl, err := res.Load()
		if err != nil {
			return "error"
		}
		lib := ast.NewKnowledgeLibrary()
		if err := builder.NewRuleBuilder(lib).BuildRuleFromResource("K", "1", pkg.NewBytesResource(grl)); err != nil {
			return "error"
		}
		return "ok"
	case "jsonfact":
		dc := ast.NewDataContext()
		if err := dc.AddJSON("J", data); err != nil {
			return "error"
		}
		return "ok"
	case "grb":
		lib := ast.NewKnowledgeLibrary()
		if _, err := lib.LoadKnowledgeBaseFromReader(bytes.NewReader(data), true); err != nil {
			return "error"
		}
		return "ok"
	}
	return "error"
}

// Two more child modes serve C12: a knowledge base is stored by one process and loaded, extended
// with another rule, instantiated and run by ANOTHER process that has built nothing before (what
// the binary format is for).
//   child grbstore <file>          builds the fixed rule set and stores it
//   child grbextend <file>         loads it, builds one more rule into it, runs an instance; prints RESULT ...
const c12XText = `rule X1 "stored one" salience 5 { when F.A < 3 then F.A = F.A + 1; }
rule X2 "stored two" { when F.A == 3 && F.B < 2 then F.B = F.B + 1; G.A = F.B; }`
const c12XMore = `rule X3 "built by the loading process" salience -1 { when F.B == 2 && F.C < 1 then F.C = F.C + 1; }`

func childGRB(mode, file string) int {
	defer func() {
		if p := recover(); p != nil {
			fmt.Printf("RESULT panic %v\n", p)
		}
	}()
	switch mode {
	case "grbstore":
		lib, err := BuildLib(c12XText)
		if err != nil {
			fmt.Println("RESULT builderror", err)
			return 0
		}
		var b bytes.Buffer
		if err := lib.StoreKnowledgeBaseToWriter(&b, kbName, kbVer); err != nil {
			fmt.Println("RESULT storeerror", err)
			return 0
		}
		if err := os.WriteFile(file, b.Bytes(), 0o644); err != nil {
			return 2
		}
		fmt.Println("RESULT stored", b.Len())
	case "grbextend":
		data, err := os.ReadFile(file)
		if err != nil {
			return 2
		}
		lib := ast.NewKnowledgeLibrary()
		if _, err := lib.LoadKnowledgeBaseFromReader(bytes.NewReader(data), true); err != nil {
			fmt.Println("RESULT loaderror", err)
			return 0
		}
		if err := builder.NewRuleBuilder(lib).BuildRuleFromResource(kbName, kbVer, pkg.NewBytesResource([]byte(c12XMore))); err != nil {
			fmt.Println("RESULT extenderror", err)
			return 0
		}
		inst, err := lib.NewKnowledgeBaseInstance(kbName, kbVer)
		if err != nil {
			fmt.Println("RESULT instanceerror", err)
			return 0
		}
		st := GenState(rand.New(rand.NewSource(1)))
		f := st["F"].(*Fact)
		f.A, f.B, f.C = 0, 0, 0
		res := Run(inst, nil, st, RunCfg{MaxCycle: 20, NoSnap: true})
		fmt.Printf("RESULT ran A=%d B=%d C=%d err=%v panic=%v\n", f.A, f.B, f.C, res.Err, res.Panic)
	}
	return 0
}

func childMain(args []string) int {
	if len(args) == 2 && (args[0] == "grbstore" || args[0] == "grbextend") {
		return childGRB(args[0], args[1])
	}
	if len(args) < 4 {
		return 2
	}
	loader, dir := args[0], args[1]
	count, _ := strconv.Atoi(args[2])
	limit, _ := strconv.ParseUint(args[3], 10, 64)
	if limit > 0 {
		syscall.Setrlimit(syscall.RLIMIT_AS, &syscall.Rlimit{Cur: limit, Max: limit})
	}
	prog, err := os.OpenFile(filepath.Join(dir, "progress"), os.O_CREATE|os.O_WRONLY|os.O_APPEND, 0o644)
	if err != nil {
		return 2
	}
	var curStart, curBudget int64
	var curIdx int64 = -1
	go func() {
		for {
			time.Sleep(20 * time.Millisecond)
			b := atomic.LoadInt64(&curBudget)
			if b > 0 && cpuNow()-atomic.LoadInt64(&curStart) > b {
				fmt.Fprintf(prog, "CPUEXCEEDED %d\n", atomic.LoadInt64(&curIdx))
				prog.Sync()
				os.Exit(3)
			}
		}
	}()
	var ms runtime.MemStats
	for i := 0; i < count; i++ {
		data, err := os.ReadFile(filepath.Join(dir, fmt.Sprintf("%d.in", i)))
		if err != nil {
			continue
		}
		runtime.GC()
		runtime.ReadMemStats(&ms)
		sys0 := int64(ms.Sys)
		fmt.Fprintf(prog, "BEGIN %d\n", i)
		atomic.StoreInt64(&curIdx, int64(i))
		c0 := cpuNow()
		atomic.StoreInt64(&curStart, c0)
		atomic.StoreInt64(&curBudget, cpuBudgetNs(len(data)))
		outcome := runLoader(loader, data)
		atomic.StoreInt64(&curBudget, 0)
		c1 := cpuNow()
		runtime.ReadMemStats(&ms)
		fmt.Fprintf(prog, "END %d %d %d %s\n", i, c1-c0, int64(ms.Sys)-sys0, outcome)
	}
	prog.Close()
	return 0
}
