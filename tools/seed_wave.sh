#!/bin/bash
# usage: tools/seed_wave.sh <seedout-dir> <Cxx> <mN>...   - evaluates delivered changes: own check first, all 20 if it misses
cd "$(dirname "$0")/.."
OUT=$1; P=$2; shift 2
for m in "$@"; do
  src=$OUT/$P/$m
  [ -f $src/patch.diff ] || { echo "$P-$m: nothing delivered"; continue; }
  echo "=== $P-$m"
  python3 tools/seed_eval.py $src $P-$m $P $P --nosuite 2>&1 | grep -E "KEPT|REJECT|check " | cut -c1-260
  if grep -q '"caught_by": \[\]' seeded/$P-$m/meta.json 2>/dev/null; then
    all=$(for i in $(seq -w 1 20); do [ C$i != $P ] && echo -n "C$i "; done)
    python3 tools/seed_eval.py $src $P-$m $P $all --nosuite 2>&1 | grep -E "KEPT|REJECT|exit 1" | cut -c1-260
  fi
done
