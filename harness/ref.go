package main

// Reference semantics, written from the documentation (GRL_en, GRL_Literals_en, Function_en,
// RuleEngine_en, RETE_en, JSON_Fact_en). Shares no code with the engine: it walks the harness's
// own AST and a State with the standard reflect package only.

import (
	"errors"
	"fmt"
	"math"
	"math/big"
	"reflect"
	"regexp"
	"sort"
	"strings"
	"time"
)

// Val is a scalar value of the reference semantics.
type Val struct {
	K   Ty            `json:"k"`
	I   int64         `json:"i,omitempty"`
	U   uint64        `json:"u,omitempty"`
	F   float64       `json:"f,omitempty"`
	S   string        `json:"s,omitempty"`
	B   bool          `json:"b,omitempty"`
	T   time.Time     `json:"t,omitempty"`
	GK  reflect.Kind  `json:"-"` // concrete Go kind (0 = the canonical kind of the family)
	Obj reflect.Value `json:"-"` // TAny: the object itself
	Ind bool          `json:"-"` // value was read through a pointer or interface (e.g. *int64 field)
}

func (v Val) String() string {
	switch v.K {
	case TInt:
		return fmt.Sprintf("%s(%d)", v.kind(), v.I)
	case TUint:
		return fmt.Sprintf("%s(%d)", v.kind(), v.U)
	case TFloat:
		return fmt.Sprintf("%s(%s)", v.kind(), fmtFloat(v.F))
	case TStr:
		return fmt.Sprintf("string(%q)", v.S)
	case TBool:
		return fmt.Sprintf("bool(%v)", v.B)
	case TTime:
		return fmt.Sprintf("time(%d,%s)", v.T.UnixNano(), v.T.Location())
	}
	if v.Obj.IsValid() {
		return "obj(" + v.Obj.Type().String() + ")"
	}
	return "nil"
}

func (v Val) kind() reflect.Kind {
	if v.GK != 0 {
		return v.GK
	}
	switch v.K {
	case TInt:
		return reflect.Int64
	case TUint:
		return reflect.Uint64
	case TFloat:
		return reflect.Float64
	case TStr:
		return reflect.String
	case TBool:
		return reflect.Bool
	case TTime:
		return reflect.Struct
	}
	return reflect.Invalid
}

// evalError: the documentation says the evaluation fails (the rule is then not a candidate, or
// the action reports an error). domainError: the case is outside the domain the properties
// quantify over (overflowing conversion, unspecified rendering); the monitor stops judging.
type evalError struct{ msg string }

func (e *evalError) Error() string { return "eval error: " + e.msg }

type domainError struct{ msg string }

func (e *domainError) Error() string { return "out of domain: " + e.msg }

func evalErr(f string, a ...interface{}) error { return &evalError{fmt.Sprintf(f, a...)} }
func domErr(f string, a ...interface{}) error  { return &domainError{fmt.Sprintf(f, a...)} }

func isDomainErr(err error) bool {
	var d *domainError
	return errors.As(err, &d)
}

// JSONFact marks a JSON-backed fact inside a State.
type JSONFact struct {
	Tree interface{}
}

// Ref is the interpreter. Opt controls the few points the documentation leaves open.
type Ref struct {
	// Strict makes overflow, division by zero and NaN/Inf results domain errors (C05 quantifies
	// over states free of them); otherwise they follow Go's wrapping / IEEE behaviour.
	Strict bool
}

var ref = &Ref{}
var refStrict = &Ref{Strict: true}

// strictCheck reports a domain error when the operation left the overflow/NaN-free domain.
func strictCheck(op string, a, b, res Val) error {
	switch res.K {
	case TFloat:
		if math.IsNaN(res.F) || math.IsInf(res.F, 0) {
			return domErr("NaN or Inf result")
		}
		if res.F != 0 && math.Abs(res.F) < 1e-300 {
			return domErr("denormal range")
		}
	case TInt, TUint:
		if a.K == TFloat || b.K == TFloat {
			return nil
		}
		var x, y big.Int
		if a.K == TUint {
			x.SetUint64(a.U)
		} else {
			x.SetInt64(a.I)
		}
		if b.K == TUint {
			y.SetUint64(b.U)
		} else {
			y.SetInt64(b.I)
		}
		if (a.K == TUint && a.U > math.MaxInt64 || b.K == TUint && b.U > math.MaxInt64) && !(a.K == TUint && b.K == TUint) {
			return domErr("unsigned operand beyond int64 mixed with signed")
		}
		var z big.Int
		switch op {
		case "+":
			z.Add(&x, &y)
		case "-":
			z.Sub(&x, &y)
		case "*":
			z.Mul(&x, &y)
		default:
			return nil
		}
		if res.K == TUint {
			if !z.IsUint64() || z.Uint64() != res.U {
				return domErr("unsigned overflow")
			}
		} else if !z.IsInt64() || z.Int64() != res.I {
			return domErr("integer overflow")
		}
	}
	return nil
}

func isNum(k Ty) bool { return k == TInt || k == TUint || k == TFloat }

func toF(v Val) float64 {
	switch v.K {
	case TInt:
		return float64(v.I)
	case TUint:
		return float64(v.U)
	}
	return v.F
}

func toI(v Val) int64 {
	if v.K == TUint {
		return int64(v.U)
	}
	return v.I
}

func vI(i int64) Val   { return Val{K: TInt, I: i} }
func vU(u uint64) Val  { return Val{K: TUint, U: u} }
func vF(f float64) Val { return Val{K: TFloat, F: f} }
func vS(s string) Val  { return Val{K: TStr, S: s} }
func vB(b bool) Val    { return Val{K: TBool, B: b} }

// scalarOf converts a Go value (leaf of a state) into a Val.
func scalarOf(rv reflect.Value) Val {
	ind := false
	for rv.IsValid() && (rv.Kind() == reflect.Ptr || rv.Kind() == reflect.Interface) {
		if rv.IsNil() {
			return Val{K: TAny, Ind: true}
		}
		if rv.Kind() == reflect.Ptr && rv.Elem().Kind() == reflect.Struct && rv.Elem().Type() != timeType {
			return Val{K: TAny, Obj: rv}
		}
		rv = rv.Elem()
		ind = true
	}
	if !rv.IsValid() {
		return Val{K: TAny}
	}
	switch rv.Kind() {
	case reflect.Int, reflect.Int8, reflect.Int16, reflect.Int32, reflect.Int64:
		return Val{K: TInt, I: rv.Int(), GK: rv.Kind(), Ind: ind}
	case reflect.Uint, reflect.Uint8, reflect.Uint16, reflect.Uint32, reflect.Uint64:
		return Val{K: TUint, U: rv.Uint(), GK: rv.Kind(), Ind: ind}
	case reflect.Float32, reflect.Float64:
		return Val{K: TFloat, F: rv.Float(), GK: rv.Kind(), Ind: ind}
	case reflect.String:
		return Val{K: TStr, S: rv.String(), GK: reflect.String, Ind: ind}
	case reflect.Bool:
		return Val{K: TBool, B: rv.Bool(), GK: reflect.Bool, Ind: ind}
	case reflect.Struct:
		if rv.Type() == timeType {
			return Val{K: TTime, T: rv.Interface().(time.Time), Ind: ind}
		}
	}
	return Val{K: TAny, Obj: rv}
}

// goValue turns a Val into the Go value the engine would hold for it.
func goValue(v Val) reflect.Value {
	switch v.K {
	case TInt:
		return reflect.ValueOf(v.I).Convert(kindType(v.kind()))
	case TUint:
		return reflect.ValueOf(v.U).Convert(kindType(v.kind()))
	case TFloat:
		return reflect.ValueOf(v.F).Convert(kindType(v.kind()))
	case TStr:
		return reflect.ValueOf(v.S)
	case TBool:
		return reflect.ValueOf(v.B)
	case TTime:
		return reflect.ValueOf(v.T)
	}
	return v.Obj
}

func kindType(k reflect.Kind) reflect.Type {
	switch k {
	case reflect.Int:
		return reflect.TypeOf(int(0))
	case reflect.Int8:
		return reflect.TypeOf(int8(0))
	case reflect.Int16:
		return reflect.TypeOf(int16(0))
	case reflect.Int32:
		return reflect.TypeOf(int32(0))
	case reflect.Int64:
		return reflect.TypeOf(int64(0))
	case reflect.Uint:
		return reflect.TypeOf(uint(0))
	case reflect.Uint8:
		return reflect.TypeOf(uint8(0))
	case reflect.Uint16:
		return reflect.TypeOf(uint16(0))
	case reflect.Uint32:
		return reflect.TypeOf(uint32(0))
	case reflect.Uint64:
		return reflect.TypeOf(uint64(0))
	case reflect.Float32:
		return reflect.TypeOf(float32(0))
	case reflect.Float64:
		return reflect.TypeOf(float64(0))
	case reflect.String:
		return reflect.TypeOf("")
	case reflect.Bool:
		return reflect.TypeOf(false)
	}
	return reflect.TypeOf(int64(0))
}

// ---------------------------------------------------------------------------
// paths

// loc is a resolved location: either an addressable Go value, a map entry, a JSON container
// slot, or a data-context entry.
type loc struct {
	v       reflect.Value // current value (may be invalid for a missing JSON member that can still be set)
	mapv    reflect.Value // when set: the map holding the entry
	key     reflect.Value
	st      State // when set: top-level entry st[name]
	name    string
	json    bool
	missing bool
}

func derefAll(rv reflect.Value) (reflect.Value, bool) {
	for rv.IsValid() && (rv.Kind() == reflect.Ptr || rv.Kind() == reflect.Interface) {
		if rv.IsNil() {
			return rv, false
		}
		rv = rv.Elem()
	}
	return rv, rv.IsValid()
}

// resolve walks path p on st. upto < 0 walks all steps; otherwise only the first upto steps.
func (r *Ref) resolve(p *Path, st State, upto int) (loc, error) {
	root, ok := st[p.Root]
	if !ok {
		return loc{}, evalErr("non existent key %s", p.Root)
	}
	cur := loc{st: st, name: p.Root}
	if jf, ok := root.(*JSONFact); ok {
		cur.json = true
		cur.v = reflect.ValueOf(&jf.Tree).Elem()
	} else if root == nil {
		cur.v = reflect.Value{}
	} else {
		cur.v = reflect.ValueOf(root)
	}
	n := len(p.Steps)
	if upto >= 0 && upto < n {
		n = upto
	}
	for i := 0; i < n; i++ {
		step := p.Steps[i]
		isJSON := cur.json
		if cur.missing {
			return loc{}, evalErr("member of an undefined value")
		}
		base, ok := derefAll(cur.v)
		if !ok {
			return loc{}, evalErr("nil value while resolving %s", PathText(p))
		}
		if step.Sel == nil {
			switch {
			case base.Kind() == reflect.Struct && base.Type() != timeType:
				f := base.FieldByName(step.F)
				if !f.IsValid() {
					return loc{}, evalErr("no field %s", step.F)
				}
				cur = loc{v: f}
			case isJSON && base.Kind() == reflect.Map:
				k := reflect.ValueOf(step.F)
				e := base.MapIndex(k)
				cur = loc{mapv: base, key: k, json: true}
				if e.IsValid() {
					cur.v = e
				} else {
					cur.missing = true
				}
			default:
				return loc{}, evalErr("%s is not an object", PathText(p))
			}
			continue
		}
		sel, err := r.Eval(step.Sel, st)
		if err != nil {
			return loc{}, err
		}
		switch base.Kind() {
		case reflect.Slice, reflect.Array:
			if sel.K != TInt {
				return loc{}, evalErr("array selector must be an integer")
			}
			if sel.I < 0 || sel.I >= int64(base.Len()) {
				return loc{}, evalErr("index %d out of range [0,%d)", sel.I, base.Len())
			}
			cur = loc{v: base.Index(int(sel.I)), json: isJSON}
		case reflect.Map:
			kt := base.Type().Key()
			if sel.K == TAny {
				return loc{}, evalErr("map selector is not a scalar")
			}
			kv := goValue(sel)
			if kv.Type() != kt {
				return loc{}, evalErr("map selector of type %s for key type %s", kv.Type(), kt)
			}
			e := base.MapIndex(kv)
			cur = loc{mapv: base, key: kv, json: isJSON}
			if e.IsValid() {
				cur.v = e
			} else {
				cur.missing = true
			}
		default:
			return loc{}, evalErr("%s is not an array nor map", PathText(p))
		}
	}
	return cur, nil
}

func (r *Ref) readPath(p *Path, st State) (Val, error) {
	l, err := r.resolve(p, st, -1)
	if err != nil {
		return Val{}, err
	}
	if l.missing {
		return Val{}, evalErr("no such member or key in %s", PathText(p))
	}
	if !l.v.IsValid() {
		return Val{K: TAny}, nil
	}
	if l.json {
		// a JSON tree holds its values in interface{} slots; the value itself is not indirect
		v := l.v
		for v.Kind() == reflect.Interface && !v.IsNil() {
			v = v.Elem()
		}
		return scalarOf(v), nil
	}
	return scalarOf(l.v), nil
}

// ---------------------------------------------------------------------------
// expressions

// Eval evaluates e on st.
func (r *Ref) Eval(e *Expr, st State) (Val, error) {
	switch e.Op {
	case "lit":
		v := *e.Lit
		return v, nil
	case "var":
		return r.readPath(e.Path, st)
	case "not":
		v, err := r.Eval(e.L, st)
		if err != nil {
			return Val{}, err
		}
		if v.K != TBool {
			return Val{}, domErr("negation of a non-boolean")
		}
		return vB(!v.B), nil
	case "call":
		return r.evalCall(e, st)
	case "member":
		v, err := r.Eval(e.L, st)
		if err != nil {
			return Val{}, err
		}
		if v.K != TAny || !v.Obj.IsValid() {
			return Val{}, evalErr("member %s of a nil or scalar value", e.Fn)
		}
		base, ok := derefAll(v.Obj)
		if !ok || base.Kind() != reflect.Struct {
			return Val{}, evalErr("member %s of a nil value", e.Fn)
		}
		f := base.FieldByName(e.Fn)
		if !f.IsValid() {
			return Val{}, evalErr("no field %s", e.Fn)
		}
		return scalarOf(f), nil
	case "&&", "||":
		l, err := r.Eval(e.L, st)
		if err != nil {
			return Val{}, err
		}
		if l.K != TBool {
			return Val{}, evalErr("logical operator on non-boolean")
		}
		if e.Op == "&&" && !l.B {
			return vB(false), nil
		}
		if e.Op == "||" && l.B {
			return vB(true), nil
		}
		rv, err := r.Eval(e.R, st)
		if err != nil {
			return Val{}, err
		}
		if rv.K != TBool {
			return Val{}, evalErr("logical operator on non-boolean")
		}
		return vB(rv.B), nil
	}
	l, lerr := r.Eval(e.L, st)
	rv, rerr := r.Eval(e.R, st)
	if lerr != nil {
		if rerr != nil && isDomainErr(rerr) {
			return Val{}, rerr
		}
		return Val{}, lerr
	}
	if rerr != nil {
		return Val{}, rerr
	}
	res, err := BinOp(e.Op, l, rv)
	if r.Strict {
		if err != nil && !isDomainErr(err) && strings.Contains(err.Error(), "division by zero") {
			return Val{}, domErr("division by zero")
		}
		if err == nil {
			if e.Op == "/" && toF(rv) == 0 {
				return Val{}, domErr("division by zero")
			}
			if serr := strictCheck(e.Op, l, rv, res); serr != nil {
				return Val{}, serr
			}
		}
	}
	return res, err
}

// BinOp applies a non-logical binary operator per the documentation.
func BinOp(op string, a, b Val) (Val, error) {
	switch op {
	case "==", "!=", "<", "<=", ">", ">=":
		c, err := compare(op, a, b)
		if err != nil {
			return Val{}, err
		}
		return vB(c), nil
	case "+":
		if a.K == TStr || b.K == TStr {
			x, err := concatText(a, true)
			if err != nil {
				return Val{}, err
			}
			y, err := concatText(b, false)
			if err != nil {
				return Val{}, err
			}
			return vS(x + y), nil
		}
	}
	if !isNum(a.K) || !isNum(b.K) {
		return Val{}, evalErr("operator %s on %s and %s", op, a.K, b.K)
	}
	if op == "/" {
		return vF(toF(a) / toF(b)), nil
	}
	if a.K == TFloat || b.K == TFloat {
		x, y := toF(a), toF(b)
		switch op {
		case "+":
			return vF(x + y), nil
		case "-":
			return vF(x - y), nil
		case "*":
			return vF(x * y), nil
		}
		return Val{}, evalErr("operator %s on real numbers", op)
	}
	if a.K == TUint && b.K == TUint && op != "%" {
		x, y := a.U, b.U
		switch op {
		case "+":
			return vU(x + y), nil
		case "-":
			return vU(x - y), nil
		case "*":
			return vU(x * y), nil
		case "&":
			return vU(x & y), nil
		case "|":
			return vU(x | y), nil
		}
	}
	x, y := toI(a), toI(b)
	switch op {
	case "+":
		return vI(x + y), nil
	case "-":
		return vI(x - y), nil
	case "*":
		return vI(x * y), nil
	case "%":
		if y == 0 {
			return Val{}, evalErr("integer division by zero")
		}
		if x == math.MinInt64 && y == -1 {
			return vI(0), nil
		}
		return vI(x % y), nil
	case "&":
		return vI(x & y), nil
	case "|":
		return vI(x | y), nil
	}
	return Val{}, evalErr("unknown operator %s", op)
}

// concatText renders an operand of a string concatenation. The documentation fixes integers
// (decimal) and booleans (true/false); a boolean is only documented on the right of a string;
// the rendering of reals is not specified (out of domain).
func concatText(v Val, left bool) (string, error) {
	switch v.K {
	case TStr:
		return v.S, nil
	case TInt:
		return fmt.Sprintf("%d", v.I), nil
	case TUint:
		return fmt.Sprintf("%d", v.U), nil
	case TBool:
		if left {
			return "", domErr("boolean on the left of a concatenation")
		}
		return fmt.Sprintf("%v", v.B), nil
	case TFloat:
		return "", domErr("rendering of a real in a concatenation is unspecified")
	case TTime:
		if left {
			return "", domErr("time on the left of a concatenation")
		}
		return v.T.Format(time.RFC3339), nil
	}
	return "", evalErr("can not concatenate %s", v.K)
}

func compare(op string, a, b Val) (bool, error) {
	var c int
	switch {
	case a.K == TStr && b.K == TStr:
		c = strings.Compare(a.S, b.S)
	case a.K == TBool && b.K == TBool:
		switch op {
		case "==":
			return a.B == b.B, nil
		case "!=":
			return a.B != b.B, nil
		}
		return false, domErr("ordering of booleans")
	case a.K == TTime && b.K == TTime:
		switch {
		case a.T.Before(b.T):
			c = -1
		case a.T.After(b.T):
			c = 1
		}
	case isNum(a.K) && isNum(b.K):
		if a.K != TFloat && b.K != TFloat {
			if a.K == TUint && b.K == TUint {
				switch {
				case a.U < b.U:
					c = -1
				case a.U > b.U:
					c = 1
				}
			} else {
				x, y := toI(a), toI(b)
				if (a.K == TUint && a.U > math.MaxInt64) || (b.K == TUint && b.U > math.MaxInt64) {
					return false, domErr("unsigned value beyond the int64 range compared with a signed one")
				}
				switch {
				case x < y:
					c = -1
				case x > y:
					c = 1
				}
			}
		} else {
			x, y := toF(a), toF(b)
			if math.IsNaN(x) || math.IsNaN(y) {
				return false, domErr("NaN comparison")
			}
			switch {
			case x < y:
				c = -1
			case x > y:
				c = 1
			}
		}
	default:
		if (op == "==" || op == "!=") && (a.K == TStr || a.K == TBool) {
			// the documentation does not say what equality across families means when a string or
			// boolean stands on the left (the engine answers false for both == and !=)
			return false, domErr("equality of %s with %s", a.K, b.K)
		}
		return false, evalErr("comparison of %s with %s", a.K, b.K)
	}
	switch op {
	case "==":
		return c == 0, nil
	case "!=":
		return c != 0, nil
	case "<":
		return c < 0, nil
	case "<=":
		return c <= 0, nil
	case ">":
		return c > 0, nil
	default:
		return c >= 0, nil
	}
}

// ---------------------------------------------------------------------------
// calls

func (r *Ref) evalArgs(e *Expr, st State) ([]Val, error) {
	args := make([]Val, len(e.Args))
	for i, a := range e.Args {
		v, err := r.Eval(a, st)
		if err != nil {
			return nil, err
		}
		args[i] = v
	}
	return args, nil
}

func wantStr(args []Val, n int) error {
	if len(args) != n {
		return evalErr("wrong argument count")
	}
	for _, a := range args {
		if a.K != TStr {
			return evalErr("string argument required")
		}
	}
	return nil
}

func vInt(i int) Val { return Val{K: TInt, I: int64(i), GK: reflect.Int} }

func (r *Ref) evalCall(e *Expr, st State) (Val, error) {
	if e.Recv == nil {
		return r.evalBuiltin(e, st)
	}
	recv, err := r.Eval(e.Recv, st)
	if err != nil {
		return Val{}, err
	}
	args, err := r.evalArgs(e, st)
	if err != nil {
		return Val{}, err
	}
	switch recv.K {
	case TStr:
		s := recv.S
		switch e.Fn {
		case "Len":
			if len(args) != 0 {
				return Val{}, evalErr("Len takes no argument")
			}
			return vInt(len(s)), nil
		case "In":
			for _, a := range args {
				if a.K != TStr {
					return Val{}, evalErr("In requires strings")
				}
				if a.S == s {
					return vB(true), nil
				}
			}
			return vB(false), nil
		case "Compare":
			if err := wantStr(args, 1); err != nil {
				return Val{}, err
			}
			return vInt(strings.Compare(s, args[0].S)), nil
		case "Contains":
			if err := wantStr(args, 1); err != nil {
				return Val{}, err
			}
			return vB(strings.Contains(s, args[0].S)), nil
		case "Count":
			if err := wantStr(args, 1); err != nil {
				return Val{}, err
			}
			return vInt(strings.Count(s, args[0].S)), nil
		case "HasPrefix":
			if err := wantStr(args, 1); err != nil {
				return Val{}, err
			}
			return vB(strings.HasPrefix(s, args[0].S)), nil
		case "HasSuffix":
			if err := wantStr(args, 1); err != nil {
				return Val{}, err
			}
			return vB(strings.HasSuffix(s, args[0].S)), nil
		case "Index":
			if err := wantStr(args, 1); err != nil {
				return Val{}, err
			}
			return vInt(strings.Index(s, args[0].S)), nil
		case "LastIndex":
			if err := wantStr(args, 1); err != nil {
				return Val{}, err
			}
			return vInt(strings.LastIndex(s, args[0].S)), nil
		case "ToUpper":
			if len(args) != 0 {
				return Val{}, evalErr("ToUpper takes no argument")
			}
			return vS(strings.ToUpper(s)), nil
		case "ToLower":
			if len(args) != 0 {
				return Val{}, evalErr("ToLower takes no argument")
			}
			return vS(strings.ToLower(s)), nil
		case "Trim":
			if len(args) != 0 {
				return Val{}, evalErr("Trim takes no argument")
			}
			return vS(strings.TrimSpace(s)), nil
		case "MatchString":
			if err := wantStr(args, 1); err != nil {
				return Val{}, err
			}
			m, err := regexp.MatchString(args[0].S, s)
			if err != nil {
				return Val{}, evalErr("MatchString: invalid pattern")
			}
			return vB(m), nil
		case "Repeat":
			if len(args) != 1 || args[0].K != TInt {
				return Val{}, evalErr("Repeat requires 1 integer")
			}
			if args[0].I < 0 || args[0].I > 1000 {
				return Val{}, domErr("Repeat count")
			}
			return vS(strings.Repeat(s, int(args[0].I))), nil
		case "Replace":
			if err := wantStr(args, 2); err != nil {
				return Val{}, err
			}
			return vS(strings.ReplaceAll(s, args[0].S, args[1].S)), nil
		}
		return Val{}, evalErr("unknown string function %s", e.Fn)
	case TAny:
		if !recv.Obj.IsValid() {
			return Val{}, evalErr("call on nil")
		}
		base := recv.Obj
		if base.Kind() == reflect.Slice || base.Kind() == reflect.Map || base.Kind() == reflect.Array {
			if e.Fn == "Len" && len(args) == 0 {
				return vInt(base.Len()), nil
			}
			return Val{}, evalErr("unsupported function %s on a container", e.Fn)
		}
		m := base.MethodByName(e.Fn)
		if !m.IsValid() {
			return Val{}, evalErr("no method %s", e.Fn)
		}
		return callGo(m, args)
	}
	return Val{}, evalErr("call of %s on a %s", e.Fn, recv.K)
}

// callGo invokes a Go method the way the documentation describes fact functions: arguments are
// passed in order with their evaluated kinds (no implicit conversion); one return value.
func callGo(m reflect.Value, args []Val) (ret Val, err error) {
	mt := m.Type()
	in := make([]reflect.Value, len(args))
	for i, a := range args {
		var pt reflect.Type
		switch {
		case mt.IsVariadic() && i >= mt.NumIn()-1:
			pt = mt.In(mt.NumIn() - 1).Elem()
		case i < mt.NumIn():
			pt = mt.In(i)
		default:
			return Val{}, evalErr("too many arguments")
		}
		gv := goValue(a)
		if !gv.IsValid() {
			return Val{}, evalErr("invalid argument")
		}
		if a.Ind {
			return Val{}, domErr("pointer or interface passed as an argument")
		}
		if gv.Type() != pt && pt.Kind() != reflect.Interface {
			return Val{}, evalErr("argument %d: %s given, %s wanted", i, gv.Type(), pt)
		}
		in[i] = gv
	}
	need := mt.NumIn()
	if mt.IsVariadic() {
		need--
	}
	if len(args) < need {
		return Val{}, evalErr("too few arguments")
	}
	if mt.NumOut() > 1 {
		// still call it (the engine does), the documentation says multiple returns are an error
		defer func() { recover() }()
		m.Call(in)
		return Val{}, evalErr("multiple return values")
	}
	defer func() {
		if rec := recover(); rec != nil {
			err = evalErr("method panicked: %v", rec)
		}
	}()
	outs := m.Call(in)
	if len(outs) == 0 {
		return Val{K: TAny}, nil
	}
	return scalarOf(outs[0]), nil
}

func (r *Ref) evalBuiltin(e *Expr, st State) (Val, error) {
	args, err := r.evalArgs(e, st)
	if err != nil {
		return Val{}, err
	}
	fl := func(n int) ([]float64, error) {
		if n >= 0 && len(args) != n {
			return nil, evalErr("wrong argument count for %s", e.Fn)
		}
		fs := make([]float64, len(args))
		for i, a := range args {
			if a.K != TFloat || (a.GK != 0 && a.GK != reflect.Float64) || a.Ind {
				return nil, evalErr("%s requires float64 arguments", e.Fn)
			}
			fs[i] = a.F
		}
		return fs, nil
	}
	if f1, ok := mathUnary[e.Fn]; ok {
		fs, err := fl(1)
		if err != nil {
			return Val{}, err
		}
		v := f1(fs[0])
		if math.IsNaN(v) || math.IsInf(v, 0) {
			return Val{}, domErr("%s(%v) is not a finite number", e.Fn, fs[0])
		}
		return vF(v), nil
	}
	if f2, ok := mathBinary[e.Fn]; ok {
		fs, err := fl(2)
		if err != nil {
			return Val{}, err
		}
		v := f2(fs[0], fs[1])
		if math.IsNaN(v) || math.IsInf(v, 0) {
			return Val{}, domErr("%s(%v, %v) is not a finite number", e.Fn, fs[0], fs[1])
		}
		return vF(v), nil
	}
	switch e.Fn {
	case "Max", "Min":
		fs, err := fl(-1)
		if err != nil {
			return Val{}, err
		}
		if len(fs) == 0 {
			return Val{}, domErr("Max/Min without arguments")
		}
		m := fs[0]
		for _, f := range fs[1:] {
			if e.Fn == "Max" {
				m = math.Max(m, f)
			} else {
				m = math.Min(m, f)
			}
		}
		return vF(m), nil
	case "MakeTime":
		if len(args) != 6 {
			return Val{}, evalErr("MakeTime requires 6 arguments")
		}
		var n [6]int
		for i, a := range args {
			if a.K != TInt || (a.GK != 0 && a.GK != reflect.Int64) || a.Ind {
				return Val{}, evalErr("MakeTime requires int64 arguments")
			}
			n[i] = int(a.I)
		}
		return Val{K: TTime, T: time.Date(n[0], time.Month(n[1]), n[2], n[3], n[4], n[5], 0, time.Local)}, nil
	case "GetTimeYear", "GetTimeMonth", "GetTimeDay", "GetTimeHour", "GetTimeMinute", "GetTimeSecond":
		if len(args) != 1 || args[0].K != TTime || args[0].Ind {
			return Val{}, evalErr("%s requires a time", e.Fn)
		}
		t := args[0].T
		switch e.Fn {
		case "GetTimeYear":
			return vInt(t.Year()), nil
		case "GetTimeMonth":
			return vInt(int(t.Month())), nil
		case "GetTimeDay":
			return vInt(t.Day()), nil
		case "GetTimeHour":
			return vInt(t.Hour()), nil
		case "GetTimeMinute":
			return vInt(t.Minute()), nil
		default:
			return vInt(t.Second()), nil
		}
	case "IsTimeBefore", "IsTimeAfter":
		if len(args) != 2 || args[0].K != TTime || args[1].K != TTime || args[0].Ind || args[1].Ind {
			return Val{}, evalErr("%s requires two times", e.Fn)
		}
		if e.Fn == "IsTimeBefore" {
			return vB(args[0].T.Before(args[1].T)), nil
		}
		return vB(args[0].T.After(args[1].T)), nil
	case "StringContains":
		if err := wantStr(args, 2); err != nil {
			return Val{}, err
		}
		return vB(strings.Contains(args[0].S, args[1].S)), nil
	}
	return Val{}, domErr("built-in %s is not modelled", e.Fn)
}

// ---------------------------------------------------------------------------
// statements

// Effects of one action list on control state.
type Control struct {
	Retracted map[string]bool
	Complete  bool
}

// Apply executes one statement on st (mutating it). A returned evalError means the documentation
// says the action fails at this statement (nothing of this statement is applied).
func (r *Ref) Apply(s *Stmt, st State, c *Control) error {
	switch s.Kind {
	case "retract":
		if c != nil {
			c.Retracted[s.Name] = true
		}
		return nil
	case "complete":
		if c != nil {
			c.Complete = true
		}
		return nil
	case "forget", "changed":
		return nil
	case "call":
		if s.Call.Op == "call" && s.Call.Fn == "Note" {
			// T.Note(x) takes anything (also a pointer to a fact) and does nothing
			return nil
		}
		_, err := r.Eval(s.Call, st)
		return err
	}
	rhs, err := r.Eval(s.RHS, st)
	if err != nil {
		return err
	}
	val := rhs
	if s.AOp != "=" {
		cur, err := r.readPath(s.Target, st)
		if err != nil {
			return err
		}
		val, err = BinOp(s.AOp[:1], cur, rhs)
		if err != nil {
			return err
		}
	}
	return r.store(s.Target, st, val)
}

func (r *Ref) store(p *Path, st State, val Val) error {
	if val.K == TAny {
		return domErr("assignment of a non-scalar")
	}
	if len(p.Steps) == 0 {
		// top-level data context variable: replaced by the new value with its own kind
		if val.Ind {
			return domErr("top-level assignment of a pointer or interface value")
		}
		st[p.Root] = goValue(val).Interface()
		return nil
	}
	parent, err := r.resolve(p, st, len(p.Steps)-1)
	if err != nil {
		return err
	}
	_ = parent
	l, err := r.resolve(p, st, -1)
	if err != nil {
		return err
	}
	if val.Ind {
		return domErr("assignment of a value read through a pointer or interface")
	}
	last := p.Steps[len(p.Steps)-1]
	if l.mapv.IsValid() {
		// map entry or JSON member
		if l.json {
			l.mapv.SetMapIndex(l.key, goValue(val))
			return nil
		}
		et := l.mapv.Type().Elem()
		gv := goValue(val)
		if gv.Type() != et {
			if et.Kind() == reflect.Interface {
				l.mapv.SetMapIndex(l.key, gv)
				return nil
			}
			return evalErr("map of %s can not take a %s", et, gv.Type())
		}
		l.mapv.SetMapIndex(l.key, gv)
		return nil
	}
	if l.json {
		// JSON array element
		if !l.v.CanSet() {
			return evalErr("JSON element not settable")
		}
		l.v.Set(goValue(val))
		return nil
	}
	_ = last
	dst := l.v
	if !dst.CanSet() {
		return evalErr("%s is not addressable", PathText(p))
	}
	return storeGo(dst, val)
}

func storeGo(dst reflect.Value, val Val) error {
	dk := dst.Kind()
	// pointer-to-number and interface-holding-number destinations
	if dk == reflect.Ptr || dk == reflect.Interface {
		inner, ok := derefAll(dst)
		if isNum(val.K) && ok && isNumKind(inner.Kind()) {
			if dk == reflect.Interface || !inner.CanSet() {
				return evalErr("number inside an interface is not settable")
			}
			return storeGo(inner, val)
		}
		if dk == reflect.Interface {
			dst.Set(goValue(val))
			return nil
		}
		return evalErr("can not assign %s to %s", val.K, dst.Type())
	}
	if isNumKind(dk) {
		if !isNum(val.K) {
			return evalErr("can not assign %s to %s", val.K, dk)
		}
		switch {
		case dk >= reflect.Int && dk <= reflect.Int64:
			var x int64
			switch val.K {
			case TInt:
				x = val.I
			case TUint:
				x = int64(val.U)
			default:
				if math.IsNaN(val.F) || val.F >= 9.2e18 || val.F <= -9.2e18 {
					return domErr("real to integer conversion out of range")
				}
				x = int64(val.F)
			}
			if dst.OverflowInt(x) {
				return domErr("value %d outside the range of %s", x, dk)
			}
			dst.SetInt(x)
		case dk >= reflect.Uint && dk <= reflect.Uint64:
			var x uint64
			switch val.K {
			case TInt:
				if val.I < 0 {
					return domErr("negative value into unsigned destination")
				}
				x = uint64(val.I)
			case TUint:
				x = val.U
			default:
				if math.IsNaN(val.F) || val.F >= 1.8e19 || val.F < 0 {
					return domErr("real to unsigned conversion out of range")
				}
				x = uint64(val.F)
			}
			if dst.OverflowUint(x) {
				return domErr("value %d outside the range of %s", x, dk)
			}
			dst.SetUint(x)
		default:
			f := toF(val)
			if dk == reflect.Float32 && !math.IsInf(f, 0) && math.Abs(f) > math.MaxFloat32 {
				return domErr("value outside float32")
			}
			dst.SetFloat(f)
		}
		return nil
	}
	gv := goValue(val)
	if gv.Type() != dst.Type() {
		return evalErr("can not assign %s to %s", gv.Type(), dst.Type())
	}
	dst.Set(gv)
	return nil
}

func isNumKind(k reflect.Kind) bool {
	return k >= reflect.Int && k <= reflect.Uint64 && k != reflect.Uintptr || k == reflect.Float32 || k == reflect.Float64
}

// EvalCond evaluates a rule condition: (true/false, nil) or an error.
func (r *Ref) EvalCond(e *Expr, st State) (bool, error) {
	v, err := r.Eval(e, st)
	if err != nil {
		return false, err
	}
	if v.K != TBool {
		return false, evalErr("condition is not boolean")
	}
	return v.B, nil
}

// The documented math built-ins are plain wrappers of Go's math package (Function_en.md).
var mathUnary = map[string]func(float64) float64{
	"Abs": math.Abs, "Acos": math.Acos, "Acosh": math.Acosh, "Asin": math.Asin, "Asinh": math.Asinh, "Atan": math.Atan, "Atanh": math.Atanh,
	"Cbrt": math.Cbrt, "Ceil": math.Ceil, "Cos": math.Cos, "Cosh": math.Cosh, "Erf": math.Erf, "Erfc": math.Erfc, "Erfcinv": math.Erfcinv,
	"Erfinv": math.Erfinv, "Exp": math.Exp, "Exp2": math.Exp2, "Expm1": math.Expm1, "Floor": math.Floor, "Gamma": math.Gamma, "J0": math.J0,
	"J1": math.J1, "MathLog": math.Log, "Log10": math.Log10, "Log1p": math.Log1p, "Log2": math.Log2, "Logb": math.Logb, "Round": math.Round,
	"RoundToEven": math.RoundToEven, "Sin": math.Sin, "Sinh": math.Sinh, "Sqrt": math.Sqrt, "Tan": math.Tan, "Tanh": math.Tanh, "Trunc": math.Trunc,
}

var mathBinary = map[string]func(float64, float64) float64{
	"Atan2": math.Atan2, "Copysign": math.Copysign, "Dim": math.Dim, "Hypot": math.Hypot, "Mod": math.Mod, "Pow": math.Pow, "Remainder": math.Remainder,
}

// sorted names (map order must not decide what a PRNG draw means)
var mathUnaryNames, mathBinaryNames = sortedKeys1(mathUnary), sortedKeys2(mathBinary)

func sortedKeys1(m map[string]func(float64) float64) []string {
	var l []string
	for k := range m {
		l = append(l, k)
	}
	sort.Strings(l)
	return l
}

func sortedKeys2(m map[string]func(float64, float64) float64) []string {
	var l []string
	for k := range m {
		l = append(l, k)
	}
	sort.Strings(l)
	return l
}
